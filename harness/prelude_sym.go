package PKGNAME

// Intrinsics of the harness idiom, symbolic flavour: the executor intercepts every
// function whose name starts with "verif" and is listed here; the bodies are never run.

func verifNondetInt(name string) int       { return 0 }
func verifNondetU32(name string) uint32    { return 0 }
func verifNondetU64(name string) uint64    { return 0 }
func verifNondetByte(name string) byte     { return 0 }
func verifNondetBool(name string) bool     { return false }
func verifChoose(n int) int                { return 0 }
func verifAssume(b bool)                   {}
func verifAssert(b bool, msg string)       {}
func verifReach(label string)              {}
func verifAnd(a, b bool) bool              { return a && b }
func verifOr(a, b bool) bool               { return a || b }
func verifImplies(a, b bool) bool          { return !a || b }
func verifB2I(b bool) int {
	if b {
		return 1
	}
	return 0
}
func verifIteInt(c bool, a, b int) int {
	if c {
		return a
	}
	return b
}
func verifCanBe(b bool, label string) {}
func verifAtomCount() int                      { return 0 }
func verifAtomIs(i int, name string) bool      { return false }
func verifAtomNArgs(i int) int                 { return 0 }
func verifAtomArg(i, k int, v any) bool        { return false }
func verifAssertCanBe(b bool, msg string) {}

func verifIteU32(c bool, a, b uint32) uint32 {
	if c {
		return a
	}
	return b
}
