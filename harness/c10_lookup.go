package PKGNAME

// C10 harness: the lookup-table blueprint keeps its cache of evaluated table entries on the
// blueprint object, i.e. on the compiled system shared by every Solve of it. Two solves
// (two logical threads, each with its own solver state and witness) execute the real methods
// Reset() and Solve() as atomic blocks under EVERY interleaving (symbolic schedule); each
// thread must read the entry selected by ITS query evaluated under ITS values.
// (uses the abstract solver of c06_sparse.go)

func verifLookupThread(name string) *verifSolver {
	s := verifMkSolver(1)
	verifAssume(verifAnd(s.solved[0], s.solved[1]))
	verifAssume(!s.solved[2])
	return s
}

func verifLookupExpected(s *verifSolver) (ELEMTYPE, bool) {
	// table: entry0 = 1*wire0, entry1 = coeff5*wire0 ; query index = 1*wire1
	idx, isU := verifFToU64(s.values[1])
	e0 := s.values[0]
	e1 := verifFMul(s.coeffs[5], s.values[0])
	if idx == 0 {
		return e0, isU
	}
	return e1, verifAnd(isU, idx == 1)
}

func verifLookupRun(nThreads int, sequentialOnly bool) {
	bp := &BlueprintLookupHint[ELEMTYPE]{}
	bp.EntriesCalldata = []uint32{1, 1, 0, 1, 5, 0}
	inst := Instruction{WireOffset: 2, Calldata: []uint32{6, 2, 1, 1, 1, 1}}
	s := make([]*verifSolver, nThreads)
	want := make([]ELEMTYPE, nThreads)
	inRange := make([]bool, nThreads)
	for t := range s {
		s[t] = verifLookupThread("thread")
		want[t], inRange[t] = verifLookupExpected(s[t])
	}
	pc := make([]int, nThreads)
	errs := make([]error, nThreads)
	for step := 0; step < 2*nThreads; step++ {
		t := 0
		if sequentialOnly {
			t = step / 2
		} else {
			t = verifChoose(nThreads)
			if pc[t] >= 2 { // not enabled: take the other one (duplicate schedules are harmless)
				t = (t + 1) % nThreads
			}
			if pc[t] >= 2 {
				t = (t + 1) % nThreads
			}
		}
		if pc[t] == 0 {
			bp.Reset()
		} else {
			errs[t] = bp.Solve(s[t], inst)
		}
		pc[t]++
	}
	for t := range s {
		if errs[t] == nil {
			verifAssert(inRange[t], "no error => the query index is inside the table")
			verifAssert(s[t].solved[2], "output wire solved")
			verifAssert(verifFEq(s[t].values[2], want[t]), "each solve reads the entry selected by its own query under its own values")
			verifReach("lookup-ok")
		} else {
			verifAssert(!inRange[t], "error => the query index is outside the table")
			verifReach("lookup-err")
		}
	}
}

// one solve, and two solves one after the other (Reset really restores the initial state)
func verifHarness_lookupSequential() { verifLookupRun(2, true) }

// two solves sharing the compiled system, every interleaving of their Reset / Solve blocks
func verifHarness_lookupInterleaved() { verifLookupRun(2, false) }
