package PKGNAME

// C12 harness, multiplication / reduction / equality (see c12_emulated.go for the stand-in and the three readings).
//verif:unwind 6000
//verif:replay interpreter

// ---------------------------------------------------------------------------------------------------
// multiplication, reduction, equality: hints + deferred checks

func verifHarness_emulatedMul() {
	adv := verifChoose(2) == 1
	bounded := false
	sfx := " [honest hints]"
	if adv {
		bounded = verifChoose(2) == 1
		sfx = " [adversarial hints; deferred checks as emitted]"
		if bounded {
			sfx = " [adversarial hints; carries assumed bounded]"
		}
	}
	f, e := verifMkEmField(adv)
	op := verifChoose(4)
	var a, b *Element[verifEmParams]
	switch verifChoose(3) {
	case 0: // two elements in normal form
		a, b = verifEmElement(f, EMNBLIMBS, 0), verifEmElement(f, EMNBLIMBS, 0)
	case 1: // operands that have to be reduced first
		a, b = verifEmElement(f, EMNBLIMBS, 1+uint(verifChoose(2))), verifEmElement(f, EMNBLIMBS, uint(verifChoose(MULBOTHOF)))
	case 2: // short operands
		a, b = verifEmElement(f, 1, 0), verifEmElement(f, EMNBLIMBS, 0)
	}
	av, bv := verifEmVal(a), verifEmVal(b)
	switch op {
	case 0:
		r := f.Mul(a, b)
		verifEmDeferred(f, e, bounded)
		verifAssert(verifEmWellFormed(r), "the product's limbs are below 2^(w + tracked overflow)"+sfx)
		verifAssert(verifEmCong(verifEmVal(r), av*bv), "Mul(a, b) is congruent to a*b modulo the emulated modulus"+sfx)
	case 1:
		r := f.Reduce(a)
		verifEmDeferred(f, e, bounded)
		verifAssert(verifEmWellFormed(r), "the reduced element's limbs are below 2^(w + tracked overflow)"+sfx)
		verifAssert(r.overflow == 0, "a reduced element has no overflow"+sfx)
		verifAssert(verifEmCong(verifEmVal(r), av), "Reduce(a) is congruent to a modulo the emulated modulus"+sfx)
	case 2:
		if !adv {
			verifAssume(verifEmCong(av, bv)) // honest reading: inside the relation
		}
		f.AssertIsEqual(a, b)
		verifEmDeferred(f, e, bounded)
		verifAssert(verifEmCong(av, bv), "AssertIsEqual(a, b) is satisfiable only for a congruent to b"+sfx)
	case 3:
		r := f.MulNoReduce(a, b)
		verifEmDeferred(f, e, bounded)
		verifAssert(verifEmWellFormed(r), "the unreduced product's limbs are below 2^(w + tracked overflow)"+sfx)
		verifAssert(verifEmCong(verifEmVal(r), av*bv), "MulNoReduce(a, b) is congruent to a*b modulo the emulated modulus"+sfx)
	}
	verifReach("emulated-mul")
}
