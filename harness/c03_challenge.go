package PKGNAME

// C03 harness (completeness under consistently set options): the Groth16 prover derives the
// value of every commitment wire by hashing (commitment point || committed public values) and
// mapping the digest to the field; the verifier recomputes it from the proof and the public
// witness. Both sides are the real code: Prove is run up to the solver (the constraint system's
// Solve is a stand-in that calls the prover's hint override on symbolic committed values, the
// Pedersen commitment is a stand-in that returns a symbolic point), Verify is run up to the
// public-input multi-exponentiation (a stand-in that records its scalars). The hash-to-field
// function given to both is a recording hash.Hash with an arbitrary digest of 3 sizes (shorter
// than, equal to, longer than a field element). Encodings (Element.Marshal, big.Int.FillBytes,
// G1Affine.Marshal, Element.SetBytes) are opaque functions of their argument.
//   * prover and verifier hash exactly the same bytes
//   * given the same digest they derive the same field element
//verif:unwind 4000
//verif:summarize system).Solve verifSummary_Solve
//verif:summarize pedersen.ProvingKey).Commit verifSummary_Commit
//verif:summarize G1Jac).MultiExp verifSummary_MultiExp
//verif:init GROTHPKG
//verif:replay interpreter

import (
	"errors"
	"math/big"

	curve "CURVEPKG"
	"CURVEPKG/fr"
	"CURVEPKG/fr/pedersen"
	"github.com/consensys/gnark-crypto/ecc"
	"github.com/consensys/gnark/backend"
	"github.com/consensys/gnark/backend/witness"
	"github.com/consensys/gnark/constraint"
	cs "github.com/consensys/gnark/constraint/CURVE"
	"github.com/consensys/gnark/constraint/solver"
)

type verifHash struct {
	data   []byte
	size   int
	inputs [][]byte
}

var verifDigest []byte

func (h *verifHash) Write(p []byte) (int, error) { h.data = append(h.data, p...); return len(p), nil }
func (h *verifHash) Sum(b []byte) []byte {
	h.inputs = append(h.inputs, append([]byte{}, h.data...))
	return append(b, verifDigest[:h.size]...)
}
func (h *verifHash) Reset()         { h.data = nil }
func (h *verifHash) Size() int      { return h.size }
func (h *verifHash) BlockSize() int { return 64 }

var (
	verifPoint       curve.G1Affine
	verifPublic      []fr.Element // the committed public values
	verifPrivate     []fr.Element // the committed private values
	verifProverRes   fr.Element
	verifProverOK    bool
	verifScalars     []fr.Element
	verifMultiExpHit bool
)

func verifSummary_Commit(pk *pedersen.ProvingKey, values []fr.Element) (curve.G1Affine, error) {
	return verifPoint, nil
}

func verifSummary_MultiExp(p *curve.G1Jac, points []curve.G1Affine, scalars []fr.Element, config ecc.MultiExpConfig) (*curve.G1Jac, error) {
	verifScalars = append([]fr.Element{}, scalars...)
	verifMultiExpHit = true
	return p, errors.New("stop after the public-input term")
}

func verifSummary_Solve(c *cs.R1CS, w witness.Witness, opts ...solver.Option) (any, error) {
	cfg := solver.Config{HintFunctions: map[solver.HintID]solver.Hint{}}
	for _, o := range opts {
		if err := o(&cfg); err != nil {
			return nil, err
		}
	}
	for _, h := range cfg.HintFunctions {
		// the solver calls the commitment hint with (commitment index, committed public values, committed private values)
		in := []*big.Int{big.NewInt(0)}
		for k := range verifPublic {
			b := new(big.Int)
			verifPublic[k].BigInt(b)
			in = append(in, b)
		}
		for k := range verifPrivate {
			b := new(big.Int)
			verifPrivate[k].BigInt(b)
			in = append(in, b)
		}
		out := []*big.Int{new(big.Int)}
		if err := h(nil, in, out); err != nil {
			return nil, err
		}
		verifProverRes.SetBigInt(out[0])
		verifProverOK = true
	}
	return nil, errors.New("stop after the commitment hint")
}

func verifHarness_commitmentChallengeConsistency() {
	nPub := verifChoose(3)  // committed public values: 0..2
	nPriv := verifChoose(2) // committed private values: 0..1
	size := fr.Bytes - 8 + 8*verifChoose(3)*verifChoose(3) // digest size: fr.Bytes-8, fr.Bytes, fr.Bytes+24 ...
	if size > 64 {
		size = 64
	}
	verifDigest = make([]byte, 64)
	for i := range verifDigest {
		verifDigest[i] = verifNondetByte("digest")
	}
	verifPoint.X.SetBytes([]byte{verifNondetByte("px")})
	verifPoint.Y.SetBytes([]byte{verifNondetByte("py"), 1})
	verifPublic = make([]fr.Element, nPub)
	for k := range verifPublic {
		verifPublic[k] = verifNondetFr("pub")
	}
	verifPrivate = make([]fr.Element, nPriv)
	for k := range verifPrivate {
		verifPrivate[k] = verifNondetFr("priv")
	}
	verifProverOK, verifMultiExpHit = false, false

	// ---- prover side
	info := constraint.Groth16Commitment{NbPublicCommitted: nPub, CommitmentIndex: nPub + 1}
	for k := 0; k < nPub; k++ {
		info.PublicAndCommitmentCommitted = append(info.PublicAndCommitmentCommitted, k+1)
	}
	for k := 0; k < nPriv; k++ {
		info.PrivateCommitted = append(info.PrivateCommitted, nPub+2+k)
	}
	r1cs := &cs.R1CS{}
	r1cs.CommitmentInfo = constraint.Groth16Commitments{info}
	pk := &ProvingKey{CommitmentKeys: make([]pedersen.ProvingKey, 1)}
	hp := &verifHash{size: size}
	_, err := Prove(r1cs, pk, nil, backend.WithProverHashToFieldFunction(hp))
	verifAssert(err != nil && verifProverOK, "the prover's commitment hint was run")
	if !verifProverOK {
		return
	}

	// ---- verifier side: same commitment point, same public values
	proof := &Proof{Commitments: []curve.G1Affine{verifPoint}}
	vk := &VerifyingKey{}
	vk.G1.K = make([]curve.G1Affine, nPub+2) // ONE wire, public wires, commitment wire
	vk.PublicAndCommitmentCommitted = [][]int{info.PublicAndCommitmentCommitted}
	w := make(fr.Vector, nPub)
	copy(w, verifPublic)
	hv := &verifHash{size: size}
	if SHAREDHASH {
		// C10 reading: the caller reuses ONE hash object for Prove and the later Verify; the earlier
		// call must leave no state behind that changes the later one
		hv = hp
		hp = &verifHash{size: size, inputs: hv.inputs}
		hv.inputs = nil
	}
	_ = Verify(proof, vk, w, backend.WithVerifierHashToFieldFunction(hv))
	if !verifMultiExpHit {
		verifReach("verifier-stopped-early") // subgroup checks etc. may reject first
		return
	}
	verifAssert(len(hp.inputs) == 1 && len(hv.inputs) == 1, "each side hashes once per commitment")
	if len(hp.inputs) != 1 || len(hv.inputs) != 1 {
		return
	}
	verifAssert(len(hp.inputs[0]) == len(hv.inputs[0]), "prover and verifier hash the same number of bytes")
	if len(hp.inputs[0]) == len(hv.inputs[0]) {
		for i := range hp.inputs[0] {
			verifAssert(hp.inputs[0][i] == hv.inputs[0][i], "prover and verifier hash the same bytes")
		}
	}
	verifAssert(len(verifScalars) == nPub+1, "the verifier appends one derived value per commitment to the public inputs")
	if len(verifScalars) == nPub+1 {
		verifAssert(verifScalars[nPub].Equal(&verifProverRes), "given the same digest, prover and verifier derive the same commitment value")
	}
	verifReach("challenge-compared")
}
