package PKGNAME

// C18 harness: verification of phase-1 contributions of the Groth16 MPC ceremony. The update
// proofs of knowledge and the same-ratio checks (gnark-crypto) are recorded, opaque predicates
// (every outcome explored); the transcript hash of a contribution is an opaque per-object
// constant. With all group elements distinct symbols:
//   Phase1.Verify accepts  =>  the contribution's challenge equals the hash of the previous one,
//   the domain sizes agree, and exactly these predicates were evaluated (to true), on exactly
//   these operands: tau / alpha / beta update proofs of NEXT against (previous, next) values under
//   their own domain separation tags, and the same-ratio check over ALL power vectors of next.
//   VerifyPhase1 checks contribution i against contribution i-1 (the first against the identity)
//   and seals the LAST one.
//verif:unwind 600
//verif:summarize Phase1).hash verifSummary_hash1
//verif:init MPCPKG
//verif:replay interpreter

import curve "CURVEPKG"

var verifH1 map[*Phase1][]byte

func verifSummary_hash1(p *Phase1) []byte {
	if verifH1 == nil {
		verifH1 = make(map[*Phase1][]byte)
	}
	if h, ok := verifH1[p]; ok {
		return h
	}
	h := []byte{verifNondetByte("hash"), verifNondetByte("hash")}
	verifH1[p] = h
	return h
}

func verifG1(n int) []curve.G1Affine {
	s := make([]curve.G1Affine, n)
	for i := range s {
		s[i] = verifNondetG1("g1")
	}
	return s
}

func verifG2(n int) []curve.G2Affine {
	s := make([]curve.G2Affine, n)
	for i := range s {
		s[i] = verifNondetG2("g2")
	}
	return s
}

func verifNondetG1(name string) curve.G1Affine { return curve.G1Affine{} }
func verifNondetG2(name string) curve.G2Affine { return curve.G2Affine{} }

func verifPhase1(n int) *Phase1 {
	p := &Phase1{}
	p.parameters.G1.Tau = verifG1(2*n - 1)
	p.parameters.G1.AlphaTau = verifG1(n)
	p.parameters.G1.BetaTau = verifG1(n)
	p.parameters.G2.Tau = verifG2(n)
	p.parameters.G2.Beta = verifNondetG2("beta")
	return p
}

// accept => the four predicates were evaluated on the reference operands, starting at atom index at
func verifCheckPhase1Atoms(at int, prev, next *Phase1, ch []byte, prevAlpha, nextAlpha curve.G1Affine) {
	verifAssert(verifAtomIs(at, "UpdateProof.Verify"), "tau update proof verified")
	verifAssert(verifAtomArg(at, 0, &next.proofs.Tau) && verifAtomArg(at, 1, ch) && verifAtomArg(at, 2, byte(DST_TAU)), "tau: proof of NEXT, previous hash, DST_TAU")
	verifAssert(verifAtomNArgs(at) == 5 && verifAtomArg(at, 3, &prev.parameters.G1.Tau[1]) && verifAtomArg(at, 4, &next.parameters.G1.Tau[1]), "tau: [tau]1 of previous and next")
	verifAssert(verifAtomIs(at+1, "UpdateProof.Verify"), "alpha update proof verified")
	verifAssert(verifAtomArg(at+1, 0, &next.proofs.Alpha) && verifAtomArg(at+1, 1, ch) && verifAtomArg(at+1, 2, byte(DST_ALPHA)), "alpha: proof of NEXT, previous hash, DST_ALPHA")
	verifAssert(verifAtomNArgs(at+1) == 5 && verifAtomArg(at+1, 3, prevAlpha) && verifAtomArg(at+1, 4, nextAlpha), "alpha: alpha[tau^0]1 of previous and next")
	verifAssert(verifAtomIs(at+2, "UpdateProof.Verify"), "beta update proof verified")
	verifAssert(verifAtomArg(at+2, 0, &next.proofs.Beta) && verifAtomArg(at+2, 1, ch) && verifAtomArg(at+2, 2, byte(DST_BETA)), "beta: proof of NEXT, previous hash, DST_BETA")
	verifAssert(verifAtomNArgs(at+2) == 7 && verifAtomArg(at+2, 3, &prev.parameters.G1.BetaTau[0]) && verifAtomArg(at+2, 4, &next.parameters.G1.BetaTau[0]) &&
		verifAtomArg(at+2, 5, &prev.parameters.G2.Beta) && verifAtomArg(at+2, 6, &next.parameters.G2.Beta), "beta: both the G1 and the G2 copies, previous and next")
	verifAssert(verifAtomIs(at+3, "SameRatioMany"), "same-ratio check evaluated")
	verifAssert(verifAtomNArgs(at+3) == 4 && verifAtomArg(at+3, 0, next.parameters.G1.Tau) && verifAtomArg(at+3, 1, next.parameters.G2.Tau) &&
		verifAtomArg(at+3, 2, next.parameters.G1.AlphaTau) && verifAtomArg(at+3, 3, next.parameters.G1.BetaTau), "same-ratio check over all four power vectors of NEXT")
}

func verifHarness_phase1Verify() {
	n := 2
	prev := verifPhase1(n)
	nNext := 1 + verifChoose(2) // domain size of next: 1 (mismatch) or 2
	next := verifPhase1(nNext)
	switch verifChoose(3) {
	case 0: // no challenge recorded yet
	case 1:
		next.Challenge = []byte{verifNondetByte("c"), verifNondetByte("c")}
	case 2:
		next.Challenge = []byte{verifNondetByte("c")}
	}
	hadChallenge := len(next.Challenge) != 0
	old := append([]byte{}, next.Challenge...)
	prevAlpha, nextAlpha := prev.parameters.G1.AlphaTau[0], next.parameters.G1.AlphaTau[0]
	err := prev.Verify(next)
	if err == nil {
		ch := verifSummary_hash1(prev)
		verifAssert(nNext == n, "accept => same domain size")
		verifAssert(len(next.Challenge) == len(ch), "accept => challenge recorded")
		if hadChallenge {
			verifAssert(len(old) == len(ch), "accept => the recorded challenge has the hash's length")
			for i := 0; i < len(ch) && i < len(old); i++ {
				verifAssert(old[i] == ch[i], "accept => the contribution's challenge is the hash of the previous contribution")
			}
		}
		verifAssert(verifAtomCount() == 4, "accept => exactly the four predicates were evaluated")
		verifCheckPhase1Atoms(0, prev, next, ch, prevAlpha, nextAlpha)
		verifReach("phase1-accept")
	} else {
		verifReach("phase1-reject")
	}
}

// two contributions: each is verified against its predecessor, the last one is sealed
func verifHarness_verifyPhase1Chain() {
	c1, c2 := verifPhase1(2), verifPhase1(2)
	beacon := []byte{verifNondetByte("beacon")}
	// (alpha is passed by value and the last contribution is modified by Seal: snapshot first)
	a1, a2 := c1.parameters.G1.AlphaTau[0], c2.parameters.G1.AlphaTau[0]
	_, err := VerifyPhase1(2, beacon, c1, c2)
	if err == nil {
		verifAssert(verifAtomCount() == 9, "accept => 2 x 4 predicates and the beacon")
		verifAssert(verifAtomIs(0, "UpdateProof.Verify") && verifAtomArg(0, 0, &c1.proofs.Tau), "the first contribution is verified first (against the identity parameters)")
		verifAssert(verifAtomIs(3, "SameRatioMany") && verifAtomArg(3, 0, c1.parameters.G1.Tau), "same-ratio check of the first contribution")
		verifCheckPhase1Atoms(4, c1, c2, verifSummary_hash1(c1), a1, a2)
		verifAssert(verifAtomIs(8, "BeaconContributions") && verifAtomArg(8, 0, verifSummary_hash1(c2)) && verifAtomArg(8, 2, beacon), "the LAST contribution is sealed, with the caller's beacon")
		verifReach("chain-accept")
	} else {
		verifReach("chain-reject")
	}
}
