package PKGNAME

// C10 harness: PLONK's initBSB22Commitments appends its hint override to the prover's solver
// options, which alias the slice the caller passed to backend.WithSolverOptions. Two provers
// sharing that slice must not write into the caller's backing array.
//verif:unwind 300
//verif:init PLONKPKG

import (
	"github.com/consensys/gnark/backend"
	"github.com/consensys/gnark/constraint"
	cs "github.com/consensys/gnark/constraint/CURVE"
	"github.com/consensys/gnark/constraint/solver"
)

func verifHarness_plonkOptionSliceAliasing() {
	spare := 2 * verifChoose(2)
	nOpts := verifChoose(2)
	shared := make([]solver.Option, nOpts, nOpts+spare)
	for i := range shared {
		shared[i] = solver.WithNbTasks(1)
	}
	for k := 0; k < 2; k++ {
		opt, err := backend.NewProverConfig(backend.WithSolverOptions(shared...))
		verifAssert(err == nil, "prover config")
		spr := &cs.SparseR1CS{}
		spr.CommitmentInfo = constraint.PlonkCommitments{}
		s := &instance{spr: spr, opt: &opt, proof: &Proof{}}
		s.initBSB22Commitments()
		verifAssert(len(s.opt.SolverOpts) == nOpts+1, "the instance's options are the caller's plus the hint override")
	}
	full := shared[:cap(shared)]
	for i := nOpts; i < len(full); i++ {
		verifAssert(full[i] == nil, "the PLONK prover does not write into the spare capacity of the caller's option slice")
	}
	verifReach("plonk-options")
}
