package PKGNAME

// frontend.API stand-in that gives every call its meaning: values are concrete big integers
// modulo a 101-bit modulus (evaluated by the real math/big through the executor's reflection
// layer), hints are the real hint functions, assertions and range checks are checked. Values of
// type verifSym (message bytes) are symbolic and may only be moved around (Select).
// Needs //verif:init of the package (verifP is a package variable).

import (
	"math/big"

	"github.com/consensys/gnark/constraint/solver"
	"github.com/consensys/gnark/frontend"
)

type verifV struct{ v *big.Int } // a circuit variable with its value
type verifSym struct{ b byte }   // a message byte: symbolic, never computed with

var verifP = new(big.Int).Add(new(big.Int).Lsh(big.NewInt(1), 100), big.NewInt(277))

type verifEng struct {
	frontend.API
	comp *verifEngCompiler
}
type verifEngCompiler struct {
	frontend.Compiler
}

func verifBig(x frontend.Variable) *big.Int {
	switch t := x.(type) {
	case verifV:
		return t.v
	case int:
		return new(big.Int).Mod(big.NewInt(int64(t)), verifP)
	case uint8:
		return big.NewInt(int64(t))
	case uint:
		return new(big.Int).SetUint64(uint64(t))
	case uint64:
		return new(big.Int).SetUint64(t)
	case *big.Int:
		return new(big.Int).Mod(t, verifP)
	case big.Int:
		return new(big.Int).Mod(&t, verifP)
	}
	panic("arithmetic on a value the stand-in does not compute with (a message byte?)")
}

func verifMk(v *big.Int) verifV { return verifV{new(big.Int).Mod(v, verifP)} }

func (e *verifEng) Compiler() frontend.Compiler { return e.comp }
func (e *verifEng) Add(i1, i2 frontend.Variable, in ...frontend.Variable) frontend.Variable {
	r := new(big.Int).Add(verifBig(i1), verifBig(i2))
	for _, x := range in {
		r.Add(r, verifBig(x))
	}
	return verifMk(r)
}
func (e *verifEng) Sub(i1, i2 frontend.Variable, in ...frontend.Variable) frontend.Variable {
	r := new(big.Int).Sub(verifBig(i1), verifBig(i2))
	for _, x := range in {
		r.Sub(r, verifBig(x))
	}
	return verifMk(r)
}
func (e *verifEng) Mul(i1, i2 frontend.Variable, in ...frontend.Variable) frontend.Variable {
	r := new(big.Int).Mul(verifBig(i1), verifBig(i2))
	for _, x := range in {
		r.Mul(r, verifBig(x))
		r.Mod(r, verifP)
	}
	return verifMk(r)
}
func (e *verifEng) Neg(i1 frontend.Variable) frontend.Variable {
	return verifMk(new(big.Int).Neg(verifBig(i1)))
}
func (e *verifEng) Select(b, i1, i2 frontend.Variable) frontend.Variable {
	c := verifBig(b)
	verifAssert(c.Sign() == 0 || c.Cmp(big.NewInt(1)) == 0, "Select is given a boolean condition")
	if c.Sign() != 0 {
		return i1
	}
	return i2
}
func (e *verifEng) IsZero(i1 frontend.Variable) frontend.Variable {
	if verifBig(i1).Sign() == 0 {
		return verifV{big.NewInt(1)}
	}
	return verifV{big.NewInt(0)}
}
func (e *verifEng) AssertIsEqual(i1, i2 frontend.Variable) {
	verifAssert(verifBig(i1).Cmp(verifBig(i2)) == 0, "an AssertIsEqual emitted by the gadget holds for the honest prover")
}
func (e *verifEng) AssertIsBoolean(i1 frontend.Variable) {
	c := verifBig(i1)
	verifAssert(c.Sign() == 0 || c.Cmp(big.NewInt(1)) == 0, "an AssertIsBoolean emitted by the gadget holds for the honest prover")
}

// frontend.Rangechecker: rangecheck.New(api) then uses the stand-in directly
func (e *verifEng) Check(v frontend.Variable, bits int) {
	verifAssert(verifBig(v).BitLen() <= bits, "a range check emitted by the gadget holds for the honest prover")
}

func (c *verifEngCompiler) Field() *big.Int  { return verifP }
func (c *verifEngCompiler) FieldBitLen() int { return verifP.BitLen() }
func (c *verifEngCompiler) ConstantValue(v frontend.Variable) (*big.Int, bool) {
	switch v.(type) {
	case verifV, verifSym:
		return nil, false
	}
	return verifBig(v), true
}
func (c *verifEngCompiler) NewHint(f solver.Hint, nbOutputs int, inputs ...frontend.Variable) ([]frontend.Variable, error) {
	ins := make([]*big.Int, len(inputs))
	for i := range inputs {
		ins[i] = new(big.Int).Set(verifBig(inputs[i]))
	}
	outs := make([]*big.Int, nbOutputs)
	for i := range outs {
		outs[i] = new(big.Int)
	}
	if err := f(verifP, ins, outs); err != nil {
		return nil, err
	}
	res := make([]frontend.Variable, nbOutputs)
	for i := range res {
		res[i] = verifMk(outs[i])
	}
	return res, nil
}

