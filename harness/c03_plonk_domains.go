package PKGNAME

// C03 harness (PLONK prover sizing): newInstance chooses the small domain (next power of two of
// #constraints + #public) and the quotient domain. The quotient has 3(n+2) coefficients which the
// prover slices out of a buffer of the quotient domain's size (h1, h2, h3), so for EVERY system
// size the quotient domain must hold 3(n+2) elements, n being the small domain's size. The real
// newInstance runs with a symbolic number of constraints (2 .. 2^20; a system of size 1 has a
// degenerate domain and cannot even be given an SRS); fft.NewDomain is reduced to its size
// (next power of two), NewTrace to a stand-in.
//verif:unwind 400
//verif:summarize CRVNAME.NewTrace verifSummary_NewTrace
//verif:init PLONKPKG
//verif:replay interpreter

import (
	"context"

	"CURVEPKG/fr/fft"
	"github.com/consensys/gnark/backend"
	"github.com/consensys/gnark/constraint"
	cs "github.com/consensys/gnark/constraint/CRVNAME"
)

func verifSummary_NewTrace(spr *cs.SparseR1CS, domain *fft.Domain) *Trace { return &Trace{} }

func verifHarness_quotientDomainSize() {
	nb := verifNondetInt("nbConstraints")
	nbPublic := verifChoose(3)
	verifAssume(verifAnd(nb >= 0, nb <= 1<<20))
	verifAssume(nb+nbPublic >= 2)
	spr := &cs.SparseR1CS{}
	spr.Type = constraint.SystemSparseR1CS
	spr.Public = make([]string, nbPublic)
	spr.NbConstraints = nb
	spr.CommitmentInfo = constraint.PlonkCommitments{}
	opt, err := backend.NewProverConfig()
	verifAssert(err == nil, "default prover options")
	s, err := newInstance(context.Background(), spr, &ProvingKey{}, nil, &opt)
	verifAssert(err == nil && s != nil, "newInstance succeeds")
	if err != nil || s == nil {
		return
	}
	n := s.domain0.Cardinality
	verifAssert(n >= uint64(nb+nbPublic) && n&(n-1) == 0, "the small domain holds every row")
	verifAssert(s.domain1.Cardinality >= 3*(n+2), "the quotient domain holds the 3(n+2) coefficients of the quotient")
	verifReach("domains")
}
