package PKGNAME

// C16 harness (native two-chain short Weierstrass, y^2 = x^3 + b over the native field): the G1
// gadget's affine AddAssign, Double and Neg against the chord-and-tangent formulas, for ALL field
// values (algebra model) under each formula's documented domain (distinct x for the chord, y != 0
// for the tangent). The gadget runs against the field-valued API stand-in. (DoubleAndAdd and the
// complete AddUnified were tried: the solver does not decide those identities within minutes -
// outside.)
//verif:unwind 400
//verif:replay interpreter

import (
	"FRPKG"
)

func verifChord(x1, y1, x2, y2 fr.Element) (fr.Element, fr.Element) {
	var l, dx, x3, y3 fr.Element
	dx.Sub(&x2, &x1)
	dx.Inverse(&dx)
	l.Sub(&y2, &y1).Mul(&l, &dx)
	x3.Mul(&l, &l).Sub(&x3, &x1).Sub(&x3, &x2)
	y3.Sub(&x1, &x3).Mul(&y3, &l).Sub(&y3, &y1)
	return x3, y3
}

func verifTangent(x1, y1 fr.Element) (fr.Element, fr.Element) {
	var l, d, x3, y3, three, two fr.Element
	three.SetUint64(3)
	two.SetUint64(2)
	d.Mul(&y1, &two)
	d.Inverse(&d)
	l.Mul(&x1, &x1).Mul(&l, &three).Mul(&l, &d)
	x3.Mul(&l, &l)
	d.Mul(&x1, &two)
	x3.Sub(&x3, &d)
	y3.Sub(&x1, &x3).Mul(&y3, &l).Sub(&y3, &y1)
	return x3, y3
}

func verifHarness_swChordTangent() {
	x1, y1, x2, y2 := verifNondetFr("x1"), verifNondetFr("y1"), verifNondetFr("x2"), verifNondetFr("y2")
	api := &verifFieldEng{}
	// chord
	verifAssume(!x1.Equal(&x2))
	wx, wy := verifChord(x1, y1, x2, y2)
	p := G1Affine{X: verifFV{x1}, Y: verifFV{y1}}
	p.AddAssign(api, G1Affine{X: verifFV{x2}, Y: verifFV{y2}})
	gx, gy := verifFE(p.X), verifFE(p.Y)
	verifAssert(gx.Equal(&wx) && gy.Equal(&wy), "AddAssign is the chord law")
	// tangent
	verifAssume(!y1.IsZero())
	tx, ty := verifTangent(x1, y1)
	var d G1Affine
	d.Double(api, G1Affine{X: verifFV{x1}, Y: verifFV{y1}})
	gx, gy = verifFE(d.X), verifFE(d.Y)
	verifAssert(gx.Equal(&tx) && gy.Equal(&ty), "Double is the tangent law (a = 0)")
	// negation
	var n G1Affine
	n.Neg(api, G1Affine{X: verifFV{x1}, Y: verifFV{y1}})
	var ny fr.Element
	ny.Neg(&y1)
	gx, gy = verifFE(n.X), verifFE(n.Y)
	verifAssert(gx.Equal(&x1) && gy.Equal(&ny), "Neg is (x, -y)")
	verifReach("chord-tangent")
}
