package PKGNAME

// C09 harness (every constraint/<field> package): coefficient table binary codec, with the
// element words as raw symbolic machine words (GF(p) word model: the codec only copies words).
//verif:unwind 400

import fr "FRPKG"

func verifHarness_coeffTableRoundTrip() {
	n := verifChoose(3) // 0..2 coefficients beyond the five fixed ones
	ct := newCoeffTable(0)
	for i := 0; i < n; i++ {
		ct.Coefficients = append(ct.Coefficients, verifNondetFr("coeff"))
	}
	b := ct.toBytes()
	verifAssert(len(b) == 8+len(ct.Coefficients)*fr.Bytes, "encoded size is 8 + n*fr.Bytes")
	var back CoeffTable
	err := back.fromBytes(b)
	verifAssert(err == nil, "the coefficient table decodes what was encoded")
	verifAssert(len(back.Coefficients) == len(ct.Coefficients), "same number of coefficients")
	for i := 0; i < len(ct.Coefficients) && i < len(back.Coefficients); i++ {
		verifAssert(back.Coefficients[i] == ct.Coefficients[i], "coefficient table decode(encode(c)) == c (word for word)")
	}
	verifReach("coefftable")
}
