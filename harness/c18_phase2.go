package PKGNAME

// C18 harness, phase 2: Phase2.Verify accepts => sizes agree, the challenge chains, and the
// sigma_i and delta update proofs of NEXT were evaluated (to true) on exactly the reference
// operands: sigma_i with (SigmaCKK[i], G2.Sigma[i]) under tag DST_SIGMA+i, delta with
// (G1.Delta, G2.Delta) forwards and (Z, PKK) backwards.
//verif:unwind 600
//verif:summarize Phase2).hash verifSummary_hash2
//verif:init MPCPKG
//verif:replay interpreter

import (
	curve "CURVEPKG"
	"CURVEPKG/mpcsetup"
)

var verifH2 map[*Phase2][]byte

func verifSummary_hash2(p *Phase2) []byte {
	if verifH2 == nil {
		verifH2 = make(map[*Phase2][]byte)
	}
	if h, ok := verifH2[p]; ok {
		return h
	}
	h := []byte{verifNondetByte("hash"), verifNondetByte("hash")}
	verifH2[p] = h
	return h
}

func verifNondetG1b(name string) curve.G1Affine { return curve.G1Affine{} }
func verifNondetG2b(name string) curve.G2Affine { return curve.G2Affine{} }

func verifG1b(n int) []curve.G1Affine {
	s := make([]curve.G1Affine, n)
	for i := range s {
		s[i] = verifNondetG1b("g1")
	}
	return s
}

func verifPhase2(nZ, nPKK, nSigma int) *Phase2 {
	p := &Phase2{}
	p.Parameters.G1.Delta = verifNondetG1b("delta1")
	p.Parameters.G2.Delta = verifNondetG2b("delta2")
	p.Parameters.G1.Z = verifG1b(nZ)
	p.Parameters.G1.PKK = verifG1b(nPKK)
	p.Parameters.G1.SigmaCKK = make([][]curve.G1Affine, nSigma)
	p.Parameters.G2.Sigma = make([]curve.G2Affine, nSigma)
	for i := 0; i < nSigma; i++ {
		p.Parameters.G1.SigmaCKK[i] = verifG1b(1 + i)
		p.Parameters.G2.Sigma[i] = verifNondetG2b("sigma2")
	}
	// well-formed as guaranteed by ReadFrom: one update proof per commitment
	p.Sigmas = make([]mpcsetup.UpdateProof, nSigma)
	return p
}

func verifHarness_phase2Verify() {
	nSigma := verifChoose(3)
	prev := verifPhase2(2, 2, nSigma)
	next := verifPhase2(2, 2+verifChoose(2), nSigma-verifChoose(2)*verifB2I(nSigma > 0))
	if verifChoose(2) == 1 {
		next.Challenge = []byte{verifNondetByte("c"), verifNondetByte("c")}
	}
	hadChallenge := len(next.Challenge) != 0
	old := append([]byte{}, next.Challenge...)
	err := prev.Verify(next)
	if err == nil {
		ch := verifSummary_hash2(prev)
		verifAssert(len(next.Parameters.G1.PKK) == len(prev.Parameters.G1.PKK) && len(next.Parameters.G2.Sigma) == nSigma, "accept => sizes agree")
		if hadChallenge {
			for i := 0; i < len(ch) && i < len(old); i++ {
				verifAssert(old[i] == ch[i], "accept => the contribution's challenge is the hash of the previous contribution")
			}
		}
		verifAssert(verifAtomCount() == nSigma+1, "accept => one predicate per commitment and one for delta")
		for i := 0; i < nSigma; i++ {
			verifAssert(verifAtomIs(i, "UpdateProof.Verify") && verifAtomArg(i, 0, &next.Sigmas[i]) && verifAtomArg(i, 1, ch) && verifAtomArg(i, 2, byte(DST_SIGMA+i)), "sigma_i: proof of NEXT, previous hash, DST_SIGMA+i")
			verifAssert(verifAtomNArgs(i) == 7 && verifAtomArg(i, 3, prev.Parameters.G1.SigmaCKK[i]) && verifAtomArg(i, 4, next.Parameters.G1.SigmaCKK[i]) &&
				verifAtomArg(i, 5, &prev.Parameters.G2.Sigma[i]) && verifAtomArg(i, 6, &next.Parameters.G2.Sigma[i]), "sigma_i: commitment bases and G2 sigma, previous and next")
		}
		d := nSigma
		verifAssert(verifAtomIs(d, "UpdateProof.Verify") && verifAtomArg(d, 0, &next.Delta) && verifAtomArg(d, 1, ch) && verifAtomArg(d, 2, byte(DST_DELTA)), "delta: proof of NEXT, previous hash, DST_DELTA")
		verifAssert(verifAtomNArgs(d) == 11 && verifAtomArg(d, 3, &prev.Parameters.G1.Delta) && verifAtomArg(d, 4, &next.Parameters.G1.Delta) &&
			verifAtomArg(d, 5, &prev.Parameters.G2.Delta) && verifAtomArg(d, 6, &next.Parameters.G2.Delta), "delta: G1 and G2 delta, previous then next")
		verifAssert(verifAtomArg(d, 7, next.Parameters.G1.Z) && verifAtomArg(d, 8, prev.Parameters.G1.Z) &&
			verifAtomArg(d, 9, next.Parameters.G1.PKK) && verifAtomArg(d, 10, prev.Parameters.G1.PKK), "delta: Z and PKK backwards (delta in the denominator)")
		verifReach("phase2-accept")
	} else {
		verifReach("phase2-reject")
	}
}
