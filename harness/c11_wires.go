package PKGNAME

// C11 harness: the two wire-query functions of the sparse builder range over Go maps. The map
// iteration order is a schedule: the executor explores EVERY order (//verif:maporders) and the
// harness asserts that the constraints appended to the system and the returned positions are
// the same as under the canonical order (increasing wire id).
//
// System under the builder: a real constraint.System holding generic sparse gates over wires
// 0..5 (2 public + 4 secret); the queried wires are chosen so that 0..3 of them are missing.
//verif:unwind 400
//verif:maporders true
//verif:replay interpreter

import (
	"github.com/consensys/gnark/constraint"
	"github.com/consensys/gnark/frontend"
	"github.com/consensys/gnark/frontend/internal/expr"
)

type verifCS struct {
	constraint.SparseR1CS[constraint.U32]
	sys        constraint.System
	added      []constraint.SparseR1C
	nbInternal int
	coeffs     []constraint.U32
}

func (c *verifCS) GetNbPublicVariables() int { return 2 }
func (c *verifCS) GetNbSecretVariables() int { return 4 }
func (c *verifCS) GetSparseR1CIterator() constraint.SparseR1CIterator {
	return c.sys.GetSparseR1CIterator()
}
func (c *verifCS) AddInternalVariable() int {
	c.nbInternal++
	return 6 + c.nbInternal - 1
}
func (c *verifCS) FromInterface(v interface{}) constraint.U32 { return constraint.U32{uint32(v.(int))} }
func (c *verifCS) AddCoeff(e constraint.U32) uint32 {
	for i := range c.coeffs {
		if c.coeffs[i] == e {
			return uint32(i)
		}
	}
	c.coeffs = append(c.coeffs, e)
	return uint32(len(c.coeffs) - 1)
}
func (c *verifCS) AddSparseR1C(g constraint.SparseR1C, bID constraint.BlueprintID) int {
	bp := c.sys.Blueprints[bID].(constraint.BlueprintSparseR1C)
	start := uint64(len(c.sys.CallData))
	bp.CompressSparseR1C(&g, &c.sys.CallData)
	c.sys.Instructions = append(c.sys.Instructions, constraint.PackedInstruction{BlueprintID: bID, StartCallData: start})
	c.added = append(c.added, g)
	c.sys.NbConstraints++
	return c.sys.NbConstraints - 1
}

func verifMkBuilder(nbGates int) (*builder[constraint.U32], *verifCS) {
	cs := &verifCS{}
	cs.sys.Blueprints = []constraint.Blueprint{&constraint.BlueprintGenericSparseR1C[constraint.U32]{}}
	b := &builder[constraint.U32]{cs: cs}
	b.tOne[0] = 1
	// existing gates mention wires 0 and 1 only
	for i := 0; i < nbGates; i++ {
		cs.AddSparseR1C(constraint.SparseR1C{XA: 0, XB: 1, XC: 0, QL: 1, QR: 1, QO: 3}, 0)
	}
	cs.added = nil
	return b, cs
}

func verifQuery(n int) []frontend.Variable {
	// n queried wires among the witness wires 2..5 (none of them occurs in a gate yet) + wire 0
	// the wire ids are symbolic: any n distinct witness wires in 2..5, in any order
	all := make([]int, n)
	for i := range all {
		all[i] = verifNondetInt("wire")
		verifAssume(verifAnd(all[i] >= 2, all[i] <= 5))
		for j := 0; j < i; j++ {
			verifAssume(all[i] != all[j])
		}
	}
	q := []frontend.Variable{expr.Term[constraint.U32]{VID: 0, Coeff: constraint.U32{1}}}
	for i := 0; i < n; i++ {
		q = append(q, expr.Term[constraint.U32]{VID: all[i], Coeff: constraint.U32{1}})
	}
	return q
}

func verifCheckAdded(cs *verifCS, n int) {
	// canonical order: increasing wire id
	verifAssert(len(cs.added) == n, "one placeholder constraint per missing wire")
	for i := 1; i < len(cs.added); i++ {
		verifAssert(cs.added[i-1].XA < cs.added[i].XA, "placeholder constraints are added in increasing wire order, whatever the map iteration order")
	}
}

func verifHarness_getWireConstraints() {
	n := verifChoose(4) // 0..3 missing wires
	b, cs := verifMkBuilder(1 + verifChoose(2))
	res, err := b.GetWireConstraints(verifQuery(n), true)
	verifAssert(err == nil, "no error")
	verifAssert(len(res) == n+1, "one position per distinct wire")
	verifCheckAdded(cs, n)
	verifReach("getWireConstraints")
}

func verifHarness_getWiresConstraintExact() {
	n := verifChoose(4)
	b, cs := verifMkBuilder(1 + verifChoose(2))
	res, err := b.GetWiresConstraintExact(verifQuery(n), true)
	verifAssert(err == nil, "no error")
	verifAssert(len(res) == n+1, "one position per queried wire")
	verifCheckAdded(cs, n)
	verifReach("getWiresConstraintExact")
}


// Determinism stated directly: the same query on two fresh builders - every map range in either
// run takes every order - appends the same constraints and returns the same positions. The query
// mixes 0..2 missing witness wires with constants (two distinct ones, one of them twice), for which
// GetWiresConstraintExact creates wires and gates of its own.
func verifHarness_getWiresConstraintExactTwice() {
	n := verifChoose(3)
	nbGates := 1 + verifChoose(2)
	q := verifQuery(n)
	q = append(q, 7, 9, 7)
	b1, cs1 := verifMkBuilder(nbGates)
	b2, cs2 := verifMkBuilder(nbGates)
	r1, err1 := b1.GetWiresConstraintExact(q, true)
	r2, err2 := b2.GetWiresConstraintExact(q, true)
	verifAssert(err1 == nil && err2 == nil, "no error")
	verifAssert(len(r1) == len(r2) && len(cs1.added) == len(cs2.added), "both compilations add the same number of constraints")
	if len(r1) != len(r2) || len(cs1.added) != len(cs2.added) {
		return
	}
	for i := range cs1.added {
		verifAssert(cs1.added[i] == cs2.added[i], "both compilations append the same constraints in the same order")
	}
	for i := range r1 {
		verifAssert(r1[i] == r2[i], "both compilations return the same positions")
	}
	verifAssert(cs1.nbInternal == cs2.nbInternal && len(cs1.coeffs) == len(cs2.coeffs), "both compilations create the same wires and coefficients")
	for i := range cs1.coeffs {
		if i < len(cs2.coeffs) {
			verifAssert(cs1.coeffs[i] == cs2.coeffs[i], "coefficient ids are assigned in the same order")
		}
	}
	verifReach("getWiresConstraintExactTwice")
}

func verifHarness_getWireConstraintsTwice() {
	n := verifChoose(3)
	nbGates := 1 + verifChoose(2)
	q := verifQuery(n)
	b1, cs1 := verifMkBuilder(nbGates)
	b2, cs2 := verifMkBuilder(nbGates)
	r1, err1 := b1.GetWireConstraints(q, true)
	r2, err2 := b2.GetWireConstraints(q, true)
	verifAssert(err1 == nil && err2 == nil, "no error")
	verifAssert(len(r1) == len(r2) && len(cs1.added) == len(cs2.added), "both compilations add the same number of constraints")
	if len(r1) != len(r2) || len(cs1.added) != len(cs2.added) {
		return
	}
	for i := range cs1.added {
		verifAssert(cs1.added[i] == cs2.added[i], "both compilations append the same constraints in the same order")
	}
	for i := range r1 {
		verifAssert(r1[i] == r2[i], "both compilations return the same positions")
	}
	verifReach("getWireConstraintsTwice")
}
