package PKGNAME

// C19 harness: GkrCircuit.Chunks splits the (sorted) instances into intervals that can be solved
// in parallel: every dependency's input instance must START a chunk (so that the instance it
// reads from, which is earlier, lies in an earlier chunk), the chunk ends are non-decreasing and
// the last one is the number of instances. Two input wires with 0..2 dependencies each, symbolic
// instances; contract assumed (established by Compile, checked in c19_export.go): dependencies
// listed by increasing input instance, output instance < input instance.
//verif:unwind 600
//verif:symindex 0

func verifMkDeps(nb int, n int) []InputDependency {
	d := make([]InputDependency, nb)
	for k := range d {
		in, out := verifNondetInt("in"), verifNondetInt("out")
		verifAssume(verifAnd(in >= 1, in < n))
		verifAssume(verifAnd(out >= 0, out < in))
		if k > 0 {
			verifAssume(d[k-1].InputInstance < in)
		}
		d[k] = InputDependency{OutputWire: 2, OutputInstance: out, InputInstance: in}
	}
	return d
}

func verifHarness_chunks() {
	n := 2 + verifChoose(3) // 2..4 instances
	c := GkrCircuit{
		{Dependencies: verifMkDeps(verifChoose(3), n)},
		{Dependencies: verifMkDeps(verifChoose(3), n)},
		{Gate: "mul", Inputs: []int{0, 1}},
	}
	res := c.Chunks(n)
	verifAssert(len(res) >= 1 && res[len(res)-1] == n, "the last chunk ends at the number of instances")
	for k := 1; k < len(res); k++ {
		verifAssert(res[k-1] <= res[k], "chunk ends are non-decreasing")
	}
	for w := 0; w < 2; w++ {
		for _, d := range c[w].Dependencies {
			starts := false
			for _, e := range res {
				starts = verifOr(starts, e == d.InputInstance)
			}
			verifAssert(starts, "an instance that reads from another instance starts a new chunk")
		}
	}
	verifReach("chunks")
}
