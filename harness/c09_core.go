package PKGNAME

// C09 harnesses (package constraint): the in-repo binary layers of the constraint system
// encoding, as round trips with symbolic contents. encoding/binary (fixed-width and varint
// routines) is interpreted from its SSA.
//verif:unwind 400

func verifHarness_headerRoundTrip() {
	h := header{levelsLen: verifNondetU64("levels"), instructionsLen: verifNondetU64("instructions"), calldataLen: verifNondetU64("calldata"), bodyLen: verifNondetU64("body")}
	// (the header pre-allocates room for the sections; the sum is assumed not to wrap)
	verifAssume(h.levelsLen < 1<<40)
	verifAssume(h.instructionsLen < 1<<40)
	verifAssume(h.calldataLen < 1<<40)
	verifAssume(h.bodyLen < 1<<40)
	b := h.toBytes()
	verifAssert(len(b) == headerLen, "the header is headerLen bytes long")
	var back header
	back.fromBytes(b)
	verifAssert(back == h, "header decode(encode(h)) == h")
	verifReach("header")
}

func verifCalldataRoundTrip(n int) {
	cs := &System{}
	cs.CallData = make([]uint32, n)
	for i := range cs.CallData {
		cs.CallData[i] = verifNondetU32("word")
	}
	b, err := cs.calldataToBytes()
	verifAssert(err == nil, "calldata encodes")
	back := &System{}
	err = back.calldataFromBytes(b)
	verifAssert(err == nil, "calldata decodes what was encoded")
	verifAssert(len(back.CallData) == n, "same number of words")
	for i := 0; i < n && i < len(back.CallData); i++ {
		verifAssert(back.CallData[i] == cs.CallData[i], "calldata decode(encode(w)) == w")
	}
	// canonical: re-encoding reproduces the same bytes
	b2, _ := back.calldataToBytes()
	verifAssert(len(b2) == len(b), "re-encoding has the same length")
	for i := 0; i < len(b) && i < len(b2); i++ {
		verifAssert(b[i] == b2[i], "re-encoding reproduces the same bytes")
	}
	verifReach("calldata")
}

func verifHarness_calldataRoundTrip0() { verifCalldataRoundTrip(0) }
func verifHarness_calldataRoundTrip1() { verifCalldataRoundTrip(1) }
func verifHarness_calldataRoundTrip2() { verifCalldataRoundTrip(2) }

// packed instructions: the four columns go through the integer compressor (third-party intcomp,
// modelled as an abstract lossless codec); what is decided is gnark's own packing / unpacking of
// the columns, for 0..2 instructions with every field symbolic (StartCallData is a full uint64)
func verifInstructionsRoundTrip(n int) {
	cs := &System{}
	cs.Instructions = make([]PackedInstruction, n)
	for i := range cs.Instructions {
		cs.Instructions[i] = PackedInstruction{BlueprintID: BlueprintID(verifNondetU32("bp")), ConstraintOffset: verifNondetU32("co"),
			WireOffset: verifNondetU32("wo"), StartCallData: verifNondetU64("start")}
	}
	b, err := cs.instructionsToBytes()
	verifAssert(err == nil, "instructions encode")
	back := &System{}
	err = back.instructionsFromBytes(b)
	verifAssert(err == nil, "instructions decode what was encoded")
	verifAssert(len(back.Instructions) == n, "same number of instructions")
	for i := 0; i < n && i < len(back.Instructions); i++ {
		verifAssert(back.Instructions[i] == cs.Instructions[i], "instruction decode(encode(x)) == x")
	}
	verifReach("instructions")
}

func verifHarness_instructionsRoundTrip0() { verifInstructionsRoundTrip(0) }
func verifHarness_instructionsRoundTrip2() { verifInstructionsRoundTrip(2) }

func verifHarness_levelsRoundTrip() {
	cs := &System{}
	n := verifChoose(3)
	cs.Levels = make([][]uint32, n)
	for i := range cs.Levels {
		cs.Levels[i] = make([]uint32, 1+i)
		for j := range cs.Levels[i] {
			cs.Levels[i][j] = verifNondetU32("inst")
		}
	}
	b, err := cs.levelsToBytes()
	verifAssert(err == nil, "levels encode")
	back := &System{}
	err = back.levelsFromBytes(b)
	verifAssert(err == nil, "levels decode what was encoded")
	verifAssert(len(back.Levels) == n, "same number of levels")
	for i := 0; i < n && i < len(back.Levels); i++ {
		verifAssert(len(back.Levels[i]) == len(cs.Levels[i]), "same level size")
		for j := 0; j < len(cs.Levels[i]) && j < len(back.Levels[i]); j++ {
			verifAssert(back.Levels[i][j] == cs.Levels[i][j], "levels decode(encode(x)) == x")
		}
	}
	verifReach("levels")
}
