package PKGNAME

// C09 harnesses (package constraint): the in-repo binary layers of the constraint system
// encoding, as round trips with symbolic contents. encoding/binary (fixed-width and varint
// routines) is interpreted from its SSA.
//verif:unwind 400

func verifHarness_headerRoundTrip() {
	h := header{levelsLen: verifNondetU64("levels"), instructionsLen: verifNondetU64("instructions"), calldataLen: verifNondetU64("calldata"), bodyLen: verifNondetU64("body")}
	// (the header pre-allocates room for the sections; the sum is assumed not to wrap)
	verifAssume(h.levelsLen < 1<<40)
	verifAssume(h.instructionsLen < 1<<40)
	verifAssume(h.calldataLen < 1<<40)
	verifAssume(h.bodyLen < 1<<40)
	b := h.toBytes()
	verifAssert(len(b) == headerLen, "the header is headerLen bytes long")
	var back header
	back.fromBytes(b)
	verifAssert(back == h, "header decode(encode(h)) == h")
	verifReach("header")
}

func verifCalldataRoundTrip(n int) {
	cs := &System{}
	cs.CallData = make([]uint32, n)
	for i := range cs.CallData {
		cs.CallData[i] = verifNondetU32("word")
	}
	b, err := cs.calldataToBytes()
	verifAssert(err == nil, "calldata encodes")
	back := &System{}
	err = back.calldataFromBytes(b)
	verifAssert(err == nil, "calldata decodes what was encoded")
	verifAssert(len(back.CallData) == n, "same number of words")
	for i := 0; i < n && i < len(back.CallData); i++ {
		verifAssert(back.CallData[i] == cs.CallData[i], "calldata decode(encode(w)) == w")
	}
	// canonical: re-encoding reproduces the same bytes
	b2, _ := back.calldataToBytes()
	verifAssert(len(b2) == len(b), "re-encoding has the same length")
	for i := 0; i < len(b) && i < len(b2); i++ {
		verifAssert(b[i] == b2[i], "re-encoding reproduces the same bytes")
	}
	verifReach("calldata")
}

func verifHarness_calldataRoundTrip0() { verifCalldataRoundTrip(0) }
func verifHarness_calldataRoundTrip1() { verifCalldataRoundTrip(1) }
func verifHarness_calldataRoundTrip2() { verifCalldataRoundTrip(2) }
