package PKGNAME

// C12 harness (emulated field arithmetic): the REAL Field[T] methods - Add, Sub, Neg, Sum, MulConst,
// Select, Lookup2, Mux, Mul, MulNoReduce, Reduce, AssertIsEqual (and what they call: reduceAndOp,
// the overflow pre-conditions, subPadding, callMulHint, mulMod, checkZero, enforceWidth, packLimbs) -
// are executed against a frontend.API stand-in whose variables are elements of a SMALL native field
// GF(q), q = NATIVEQ (machine arithmetic modulo q on 32-bit words, so native wrap-around is real), for
// a small emulated modulus p = EMMOD on NbLimbs = EMNBLIMBS limbs of EMLIMBBITS bits. Elements are the
// representations the library itself produces: internal elements on 0..3 limbs with a tracked overflow
// f (every limb below 2^(w+f)), and constants.
//   adversarial reading : every hint output (quotient, remainder, carries) is an ARBITRARY native field
//                         element; range checks and assertions are what the prover has to satisfy; the
//                         deferred multiplication checks are replaced by what the random-point test
//                         establishes (Schwartz-Zippel over the committed challenge, assumed): the
//                         identity a(X) b(X) = r(X) + k(X) p(X) + (2^w - X) c(X) holds coefficient by
//                         coefficient over GF(q), read from the real mulCheck records.
//                         Whatever the prover supplies, results are congruent modulo p.
//   honest reading      : the multiplication hint has its meaning (integer quotient, remainder, the
//                         carries of the limb-wise products); every range check holds, every deferred
//                         identity holds: the honest prover is never rejected.

import (
	"math/big"

	"github.com/consensys/gnark/constraint/solver"
	"github.com/consensys/gnark/frontend"
)

const verifQ = NATIVEQ // native stand-in modulus
const verifQBits = QBITSNATIVE
const verifP = EMMOD // emulated modulus
const verifT = EMLIMBBITS // bits per limb

type verifEmParams struct{}

func (verifEmParams) NbLimbs() uint     { return EMNBLIMBS }
func (verifEmParams) BitsPerLimb() uint { return verifT }
func (verifEmParams) IsPrime() bool     { return true }
func (verifEmParams) Modulus() *big.Int { return big.NewInt(verifP) }

type verifN struct{ v uint32 } // a native field element, canonical (< q)

type verifEmEng struct {
	frontend.API
	comp        *verifEmCompiler
	adversarial bool
	exact       bool // integer arithmetic with explicit obligations "the native field is never exceeded / no subtraction underflows" instead of wrapping modulo q (for hint-free code)
	nbHints     int
}
type verifEmCompiler struct {
	frontend.Compiler
	eng      *verifEmEng
	deferred []func(frontend.API) error
}

func verifNU(x frontend.Variable) uint32 {
	switch t := x.(type) {
	case verifN:
		return t.v
	case int:
		if t < 0 {
			return uint32(verifQ - (-t)%verifQ)
		}
		return uint32(t % verifQ)
	case uint:
		return uint32(t % verifQ)
	case uint32:
		return t % verifQ
	case *big.Int:
		return uint32(new(big.Int).Mod(t, big.NewInt(verifQ)).Uint64())
	case big.Int:
		return uint32(new(big.Int).Mod(&t, big.NewInt(verifQ)).Uint64())
	}
	panic("unexpected variable type in the native-field stand-in")
}

func (e *verifEmEng) Compiler() frontend.Compiler { return e.comp }

// arithmetic modulo q on canonical values: conditional subtraction for sums (no division), one remainder per product
func verifNAdd(a, b uint32) uint32 { r := a + b; return verifIteU32(r >= verifQ, r-verifQ, r) }
func verifNSub(a, b uint32) uint32 { return verifIteU32(a >= b, a-b, a+verifQ-b) }
func verifNMul(a, b uint32) uint32 { return (a * b) % verifQ }
func verifIsConst(x frontend.Variable, c int) bool {
	switch t := x.(type) {
	case int:
		return t == c
	case uint:
		return int(t) == c
	case *big.Int:
		return t.IsInt64() && t.Int64() == int64(c)
	}
	return false
}
func (e *verifEmEng) add2(a, b uint32) uint32 {
	if e.exact {
		r := a + b
		verifAssert(r < verifQ, "no native addition exceeds the native field")
		return r
	}
	return verifNAdd(a, b)
}
func (e *verifEmEng) sub2(a, b uint32) uint32 {
	if e.exact {
		verifAssert(a >= b, "no native subtraction underflows")
		return a - b
	}
	return verifNSub(a, b)
}
func (e *verifEmEng) mul2(i1, i2 frontend.Variable) uint32 {
	if e.exact {
		r := verifNU(i1) * verifNU(i2)
		verifAssert(r < verifQ, "no native multiplication exceeds the native field")
		return r
	}
	switch {
	case verifIsConst(i1, 0), verifIsConst(i2, 0):
		return 0
	case verifIsConst(i1, 1):
		return verifNU(i2)
	case verifIsConst(i2, 1):
		return verifNU(i1)
	}
	return verifNMul(verifNU(i1), verifNU(i2))
}
func (e *verifEmEng) Add(i1, i2 frontend.Variable, in ...frontend.Variable) frontend.Variable {
	r := e.add2(verifNU(i1), verifNU(i2))
	for _, x := range in {
		r = e.add2(r, verifNU(x))
	}
	return verifN{r}
}
func (e *verifEmEng) Sub(i1, i2 frontend.Variable, in ...frontend.Variable) frontend.Variable {
	r := e.sub2(verifNU(i1), verifNU(i2))
	for _, x := range in {
		r = e.sub2(r, verifNU(x))
	}
	return verifN{r}
}
func (e *verifEmEng) Neg(i1 frontend.Variable) frontend.Variable {
	return verifN{e.sub2(0, verifNU(i1))}
}
func (e *verifEmEng) Mul(i1, i2 frontend.Variable, in ...frontend.Variable) frontend.Variable {
	r := e.mul2(i1, i2)
	for _, x := range in {
		r = e.mul2(verifN{r}, x)
	}
	return verifN{r}
}
func (e *verifEmEng) MulAcc(a, b, c frontend.Variable) frontend.Variable {
	return verifN{e.add2(verifNU(a), e.mul2(b, c))}
}
func (e *verifEmEng) Select(b, i1, i2 frontend.Variable) frontend.Variable {
	// the selector is a boolean (constrained by its producer / by the builder's Select)
	return verifN{verifIteU32(verifNU(b) == 1, verifNU(i1), verifNU(i2))}
}
func (e *verifEmEng) Lookup2(b0, b1 frontend.Variable, i0, i1, i2, i3 frontend.Variable) frontend.Variable {
	lo := e.Select(b0, i1, i0)
	hi := e.Select(b0, i3, i2)
	return e.Select(b1, hi, lo)
}
func (e *verifEmEng) Or(a, b frontend.Variable) frontend.Variable {
	return verifN{uint32(verifB2I(verifOr(verifNU(a) == 1, verifNU(b) == 1)))}
}
func (e *verifEmEng) And(a, b frontend.Variable) frontend.Variable {
	return verifN{uint32(verifB2I(verifAnd(verifNU(a) == 1, verifNU(b) == 1)))}
}
func (e *verifEmEng) IsZero(i1 frontend.Variable) frontend.Variable {
	return verifN{uint32(verifB2I(verifNU(i1) == 0))}
}
func (e *verifEmEng) holds(c bool, msg string) {
	if e.adversarial {
		verifAssume(c) // a constraint the prover has to satisfy
	} else {
		verifAssert(c, msg)
	}
}
func (e *verifEmEng) AssertIsEqual(i1, i2 frontend.Variable) {
	e.holds(verifNU(i1) == verifNU(i2), "an AssertIsEqual emitted by the gadget holds for the honest prover")
}
func (e *verifEmEng) AssertIsBoolean(i1 frontend.Variable) {
	e.holds(verifNU(i1) < 2, "an AssertIsBoolean emitted by the gadget holds for the honest prover")
}
func (e *verifEmEng) Check(v frontend.Variable, bits int) {
	e.holds(verifNU(v) < uint32(1)<<uint(bits), "a range check emitted by the gadget holds for the honest prover")
}
func (e *verifEmEng) ConstantValue(v frontend.Variable) (*big.Int, bool) {
	return e.comp.ConstantValue(v)
}
func (e *verifEmEng) NewHint(f solver.Hint, nbOutputs int, inputs ...frontend.Variable) ([]frontend.Variable, error) {
	return e.comp.NewHint(f, nbOutputs, inputs...)
}
func (c *verifEmCompiler) FieldBitLen() int  { return verifQBits }
func (c *verifEmCompiler) Field() *big.Int   { return big.NewInt(verifQ) }
func (c *verifEmCompiler) Defer(cb func(frontend.API) error) { c.deferred = append(c.deferred, cb) }
func (c *verifEmCompiler) ConstantValue(v frontend.Variable) (*big.Int, bool) {
	switch t := v.(type) {
	case verifN:
		return nil, false
	case int:
		return big.NewInt(int64(t)), true
	case uint:
		return new(big.Int).SetUint64(uint64(t)), true
	case *big.Int:
		return new(big.Int).Set(t), true
	case big.Int:
		return new(big.Int).Set(&t), true
	}
	panic("unexpected variable type in ConstantValue")
}

// hints: adversarial = arbitrary native field elements; honest = the multiplication hint's meaning
func (c *verifEmCompiler) NewHint(f solver.Hint, nbOutputs int, inputs ...frontend.Variable) ([]frontend.Variable, error) {
	c.eng.nbHints++
	res := make([]frontend.Variable, nbOutputs)
	if c.eng.adversarial {
		for i := range res {
			w := verifNondetU32("hint")
			verifAssume(w < verifQ)
			res[i] = verifN{w}
		}
		return res, nil
	}
	// honest mulHint(nbBits, nbLimbs, len(a), nbQuoLimbs, p..., a..., b...) -> quotient, remainder, carries
	nbLimbs := int(verifNU(inputs[1]))
	nbA := int(verifNU(inputs[2]))
	nbQuo := int(verifNU(inputs[3]))
	pl := inputs[4 : 4+nbLimbs]
	al := inputs[4+nbLimbs : 4+nbLimbs+nbA]
	bl := inputs[4+nbLimbs+nbA:]
	var P, A, B uint32
	for i := range pl {
		P += verifNU(pl[i]) << uint(verifT*i)
	}
	for i := range al {
		A += verifNU(al[i]) << uint(verifT*i)
	}
	for i := range bl {
		B += verifNU(bl[i]) << uint(verifT*i)
	}
	ab := A * B
	quo, rem := ab/P, ab%P
	verifAssert(quo < uint32(1)<<uint(verifT*nbQuo), "the honest quotient fits the number of quotient limbs the gadget allocates")
	nbCarry := nbOutputs - nbQuo - nbLimbs
	ql := make([]uint32, nbQuo)
	for i := range ql {
		ql[i] = (quo >> uint(verifT*i)) & (1<<verifT - 1)
		res[i] = verifN{ql[i]}
	}
	rl := make([]uint32, nbLimbs)
	for i := range rl {
		rl[i] = (rem >> uint(verifT*i)) & (1<<verifT - 1)
		res[nbQuo+i] = verifN{rl[i]}
	}
	var carry int32
	for i := 0; i < nbCarry; i++ {
		for j := range al {
			if k := i - j; k >= 0 && k < len(bl) {
				carry += int32(verifNU(al[j]) * verifNU(bl[k]))
			}
		}
		for j := range ql {
			if k := i - j; k >= 0 && k < len(pl) {
				carry -= int32(ql[j] * verifNU(pl[k]))
			}
		}
		if i < len(rl) {
			carry -= int32(rl[i])
		}
		carry >>= verifT
		res[nbQuo+nbLimbs+i] = verifN{uint32((carry%verifQ + verifQ) % verifQ)}
	}
	return res, nil
}

func verifMkEmField(adv bool) (*Field[verifEmParams], *verifEmEng) {
	e := &verifEmEng{adversarial: adv}
	e.comp = &verifEmCompiler{eng: e}
	return &Field[verifEmParams]{api: e, constrainedLimbs: make(map[[16]byte]struct{}), checker: e}, e
}

// an element as the library produces them: internal, n limbs, overflow of, every limb below 2^(3+of)
func verifEmElement(f *Field[verifEmParams], n int, of uint) *Element[verifEmParams] {
	if n == 0 {
		of = 0 // the zero element on no limbs carries no overflow
	}
	limbs := make([]frontend.Variable, n)
	for i := range limbs {
		w := verifNondetU32("limb")
		verifAssume(w < uint32(1)<<(verifT+of))
		limbs[i] = verifN{w}
	}
	return f.newInternalElement(limbs, of)
}

// a = b modulo the emulated modulus p (the multiplicative divisibility test d*p^-1 mod 2^32 <= (2^32-1)/p was tried in
// place of the two remainders and made the solver slower on these queries: kept as remainders, sizes kept small)
func verifEmCong(a, b uint32) bool { return a%verifP == b%verifP }

// the integer an element stands for
func verifEmVal(e *Element[verifEmParams]) uint32 {
	var v uint32
	for i := range e.Limbs {
		v += verifNU(e.Limbs[i]) << uint(verifT*i)
	}
	return v
}

// every limb is below 2^(3+overflow): the invariant all overflow bookkeeping rests on (whether the native field is
// ever exceeded is judged by the congruence of the results: the stand-in's arithmetic really wraps modulo q)
func verifEmWellFormed(e *Element[verifEmParams]) bool {
	ok := true
	for i := range e.Limbs {
		ok = verifAnd(ok, verifNU(e.Limbs[i]) < uint32(1)<<(verifT+e.overflow))
	}
	return ok
}

// what the random-point test of a deferred multiplication check establishes (Schwartz-Zippel over the committed challenge):
// a(X) b(X) = r(X) + k(X) p(X) + (2^w - X) c(X) coefficient by coefficient over GF(q)
func verifEmDeferred(f *Field[verifEmParams], e *verifEmEng, boundedCarries bool) {
	for _, dc := range f.deferredChecks {
		mc := dc.(*mulCheck[verifEmParams])
		if boundedCarries && e.adversarial {
			// reading "carries bounded": what a width check on the carry limbs would add - every carry is a small signed
			// integer, |c| < 2^(native bits - 2 - w), so that no coefficient of the identity wraps around q
			for _, c := range mc.c.Limbs {
				cv := verifNU(c)
				verifAssume(verifOr(cv < 1<<(verifQBits-2-verifT), cv > verifQ-(1<<(verifQBits-2-verifT))))
			}
		}
		pl := f.Modulus().Limbs
		if mc.p != nil {
			pl = mc.p.Limbs
		}
		n := len(mc.a.Limbs) + len(mc.b.Limbs)
		if m := len(mc.k.Limbs) + len(pl); m > n {
			n = m
		}
		if m := len(mc.c.Limbs) + 1; m > n {
			n = m
		}
		if m := len(mc.r.Limbs); m > n {
			n = m
		}
		for j := 0; j < n; j++ {
			var l, r uint32
			for i := range mc.a.Limbs {
				if k := j - i; k >= 0 && k < len(mc.b.Limbs) {
					l = verifNAdd(l, e.mul2(mc.a.Limbs[i], mc.b.Limbs[k]))
				}
			}
			if j < len(mc.r.Limbs) {
				r = verifNU(mc.r.Limbs[j])
			}
			for i := range mc.k.Limbs {
				if k := j - i; k >= 0 && k < len(pl) {
					r = verifNAdd(r, e.mul2(mc.k.Limbs[i], pl[k]))
				}
			}
			if j < len(mc.c.Limbs) {
				r = verifNAdd(r, verifNMul(1<<verifT, verifNU(mc.c.Limbs[j])))
			}
			if j >= 1 && j-1 < len(mc.c.Limbs) {
				r = verifNSub(r, verifNU(mc.c.Limbs[j-1]))
			}
			e.holds(l == r, "a deferred multiplication identity holds for the honest prover")
		}
	}
}

func verifEmOverflow() uint {
	ofs := []uint{0, 1, verifQBits - 2 - verifT}
	return ofs[verifChoose(len(ofs))]
}
