package PKGNAME

// C08 harness: decoding a witness from untrusted bytes. The 8-byte (nbPublic, nbSecret) header
// is symbolic and decoded by the real code (encoding/binary, bytes.Reader and io.ReadFull are
// interpreted); the field-vector codec of gnark-crypto is an abstract stub that yields a vector
// of ANY length 0..3 or an error. No path may panic; a header that disagrees with the payload
// must be an error; Public() must return exactly the announced public prefix.
//verif:unwind 300
//verif:init io github.com/consensys/gnark/backend/witness
//verif:replay interpreter

import (
	fr_bn254 "github.com/consensys/gnark-crypto/ecc/bn254/fr"
	"github.com/consensys/gnark/internal/smallfields/tinyfield"
)

func verifDecode(w *witness) {
	n := verifChoose(13) // number of bytes available: 0..9 (truncated headers included), 12, 16, 20
	if n >= 10 {
		n = 12 + 4*(n-10)
	}
	data := make([]byte, n)
	for i := range data {
		data[i] = verifNondetByte("b")
	}
	err := w.UnmarshalBinary(data)
	if err != nil {
		verifReach("decode-error")
		return
	}
	var l int
	switch v := w.vector.(type) {
	case fr_bn254.Vector:
		l = len(v)
	case tinyfield.Vector:
		l = len(v)
	}
	verifAssert(uint64(w.nbPublic)+uint64(w.nbSecret) == uint64(l), "decode ok => header agrees with the payload")
	pub, perr := w.Public()
	if perr == nil {
		p := pub.(*witness)
		var pl int
		switch v := p.vector.(type) {
		case fr_bn254.Vector:
			pl = len(v)
		case tinyfield.Vector:
			pl = len(v)
		}
		verifAssert(pl == int(w.nbPublic), "Public() has nbPublic elements")
		verifAssert(pl <= l, "Public() is a prefix of the decoded vector")
		verifAssert(p.nbSecret == 0, "Public() has no secret part")
	}
	verifReach("decode-ok")
}

func verifHarness_witnessDecodeBN254()     { verifDecode(&witness{vector: fr_bn254.Vector{}}) }
func verifHarness_witnessDecodeTinyfield() { verifDecode(&witness{vector: tinyfield.Vector{}}) }
