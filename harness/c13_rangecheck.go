package PKGNAME

// C13 harness: the REAL commitChecker.commit (limb decomposition, recomposition constraint,
// shifted most-significant limb, choice of the limb width) is executed against a symbolic API
// over FIELD values (stand-in field GF(251) in the machine-word model, so a limb may be any field
// element, e.g. k*2^-shift; widths are kept <= 7 bits so that 2^bits < 251):
// hint outputs (the limbs) are ADVERSARIAL, AssertIsEqual is an assumption the adversary must
// satisfy, and the log-derivative argument is replaced by its specification (every query value
// is one of the table entries 0..2^base-1; its soundness is the cryptographic part, see
// DESIGN.md). For 1 or 2 checks (on two variables or twice on the same variable, which has an
// identity as builder variables do) of widths in {1,2,3,5,7} (the width mix changes the limb width
// the gadget picks), through rangecheck's own registration (key-value store + deferred commit),
// whatever limbs the prover supplies:
//     all constraints satisfied  =>  every checked value is an integer in [0, 2^bits).
//verif:unwind 300000
//verif:summarize logderivarg.Build verifSummary_logderivBuild
//verif:replay interpreter

import (
	"math/big"

	"github.com/consensys/gnark-crypto/ecc/bn254/fr"
	"github.com/consensys/gnark/constraint/solver"
	"github.com/consensys/gnark/frontend"
	"github.com/consensys/gnark/std/internal/logderivarg"
)

func verifFIsIntBelow(x fr.Element, n uint64) bool { return false }

type verifCompiler struct {
	frontend.Compiler
	kv       map[any]any
	deferred []func(frontend.API) error
}

func (c *verifCompiler) SetKeyValue(key, value any) { c.kv[key] = value }
func (c *verifCompiler) GetKeyValue(key any) any     { return c.kv[key] }
func (c *verifCompiler) Defer(cb func(frontend.API) error) {
	c.deferred = append(c.deferred, cb)
}

// a circuit variable as the builders hand them out: it has an identity (HashCode) besides its value
type verifVar struct {
	id  int
	val fr.Element
}

func (v verifVar) HashCode() [16]byte {
	var h [16]byte
	h[0] = byte(v.id)
	return h
}

func (c *verifCompiler) NewHint(f solver.Hint, nbOutputs int, inputs ...frontend.Variable) ([]frontend.Variable, error) {
	outs := make([]frontend.Variable, nbOutputs)
	for i := range outs {
		outs[i] = verifNondetFr("limb") // adversarial hint output: any field element
	}
	return outs, nil
}

type verifAPI struct {
	frontend.API
	comp *verifCompiler
}

func verifVal(v frontend.Variable) fr.Element {
	var e fr.Element
	switch t := v.(type) {
	case fr.Element:
		return t
	case verifVar:
		return t.val
	case int:
		e.SetUint64(uint64(t))
	case *big.Int:
		e.SetUint64(t.Uint64())
	default:
		panic("unexpected variable type")
	}
	return e
}

func (a *verifAPI) Compiler() frontend.Compiler { return a.comp }
func (a *verifAPI) Add(i1, i2 frontend.Variable, in ...frontend.Variable) frontend.Variable {
	r, y := verifVal(i1), verifVal(i2)
	r.Add(&r, &y)
	for _, x := range in {
		y = verifVal(x)
		r.Add(&r, &y)
	}
	return r
}
func (a *verifAPI) Mul(i1, i2 frontend.Variable, in ...frontend.Variable) frontend.Variable {
	r, y := verifVal(i1), verifVal(i2)
	r.Mul(&r, &y)
	for _, x := range in {
		y = verifVal(x)
		r.Mul(&r, &y)
	}
	return r
}
func (a *verifAPI) AssertIsEqual(i1, i2 frontend.Variable) {
	x, y := verifVal(i1), verifVal(i2)
	verifAssume(x.Equal(&y))
}

var verifNbQueries int

// specification of the log-derivative argument: the table is 0..n-1 and every query is one of its rows
func verifSummary_logderivBuild(api frontend.API, table logderivarg.Table, queries logderivarg.Table) error {
	n := len(table)
	for i := range table {
		verifAssert(len(table[i]) == 1, "single column table")
		t := verifVal(table[i][0])
		var want fr.Element
		want.SetUint64(uint64(i))
		verifAssert(t.Equal(&want), "the range table is 0..2^base-1")
	}
	verifAssert(n > 0 && n&(n-1) == 0, "the table size is a power of two")
	for i := range queries {
		verifAssume(verifFIsIntBelow(verifVal(queries[i][0]), uint64(n)))
		verifNbQueries++
	}
	return nil
}

func verifHarness_commitRangeCheck() {
	widths := []int{1, 2, 3, 5, 7}
	nb := 1 + verifChoose(2)
	sameVar := nb == 2 && verifChoose(2) == 1 // the second check may be on the very same variable, with another width
	api := &verifAPI{comp: &verifCompiler{kv: map[any]any{}}}
	vals := make([]fr.Element, nb)
	bits := make([]int, nb)
	for i := 0; i < nb; i++ {
		bits[i] = widths[verifChoose(len(widths))]
		v := verifVar{id: i, val: verifNondetFr("checked")} // any field element
		if i == 1 && sameVar {
			v = verifVar{id: 0, val: vals[0]}
		}
		vals[i] = v.val
		// each gadget asks for the circuit's range checker, as callers of rangecheck.New do
		newCommitRangechecker(api).Check(v, bits[i])
	}
	verifNbQueries = 0
	verifAssert(len(api.comp.deferred) == 1, "one deferred commit per circuit")
	var err error
	for _, cb := range api.comp.deferred {
		err = cb(api)
	}
	verifAssert(err == nil, "commit succeeds")
	verifAssert(verifNbQueries >= 1, "checked variables contribute queries")
	for i := 0; i < nb; i++ {
		verifAssert(verifFIsIntBelow(vals[i], uint64(1)<<uint(bits[i])), "constraints satisfied => the checked value is an integer below 2^bits")
	}
	verifReach("rangecheck")
}
