package PKGNAME

// C13 harness: the REAL commitChecker.commit (limb decomposition, recomposition constraint,
// shifted most-significant limb, choice of the limb width) is executed against a symbolic API
// over FIELD values (stand-in field GF(251) in the machine-word model, so a limb may be any field
// element, e.g. k*2^-shift; widths are kept <= 7 bits so that 2^bits < 251):
// hint outputs (the limbs) are ADVERSARIAL, AssertIsEqual is an assumption the adversary must
// satisfy, and the log-derivative argument is replaced by its specification (every query value
// is one of the table entries 0..2^base-1; its soundness is the cryptographic part, see
// DESIGN.md). For 1 or 2 checked variables of widths in {1,2,3,5,7} (the width mix
// changes the limb width the gadget picks), whatever limbs the prover supplies:
//     all constraints satisfied  =>  every checked value is an integer in [0, 2^bits).
//verif:unwind 300000
//verif:summarize logderivarg.Build verifSummary_logderivBuild
//verif:replay interpreter

import (
	"math/big"

	"github.com/consensys/gnark-crypto/ecc/bn254/fr"
	"github.com/consensys/gnark/constraint/solver"
	"github.com/consensys/gnark/frontend"
	"github.com/consensys/gnark/std/internal/logderivarg"
)

func verifFIsIntBelow(x fr.Element, n uint64) bool { return false }

type verifCompiler struct {
	frontend.Compiler
}

func (c *verifCompiler) NewHint(f solver.Hint, nbOutputs int, inputs ...frontend.Variable) ([]frontend.Variable, error) {
	outs := make([]frontend.Variable, nbOutputs)
	for i := range outs {
		outs[i] = verifNondetFr("limb") // adversarial hint output: any field element
	}
	return outs, nil
}

type verifAPI struct {
	frontend.API
	comp *verifCompiler
}

func verifVal(v frontend.Variable) fr.Element {
	var e fr.Element
	switch t := v.(type) {
	case fr.Element:
		return t
	case int:
		e.SetUint64(uint64(t))
	case *big.Int:
		e.SetUint64(t.Uint64())
	default:
		panic("unexpected variable type")
	}
	return e
}

func (a *verifAPI) Compiler() frontend.Compiler { return a.comp }
func (a *verifAPI) Add(i1, i2 frontend.Variable, in ...frontend.Variable) frontend.Variable {
	r, y := verifVal(i1), verifVal(i2)
	r.Add(&r, &y)
	for _, x := range in {
		y = verifVal(x)
		r.Add(&r, &y)
	}
	return r
}
func (a *verifAPI) Mul(i1, i2 frontend.Variable, in ...frontend.Variable) frontend.Variable {
	r, y := verifVal(i1), verifVal(i2)
	r.Mul(&r, &y)
	for _, x := range in {
		y = verifVal(x)
		r.Mul(&r, &y)
	}
	return r
}
func (a *verifAPI) AssertIsEqual(i1, i2 frontend.Variable) {
	x, y := verifVal(i1), verifVal(i2)
	verifAssume(x.Equal(&y))
}

var verifNbQueries int

// specification of the log-derivative argument: the table is 0..n-1 and every query is one of its rows
func verifSummary_logderivBuild(api frontend.API, table logderivarg.Table, queries logderivarg.Table) error {
	n := len(table)
	for i := range table {
		verifAssert(len(table[i]) == 1, "single column table")
		t := verifVal(table[i][0])
		var want fr.Element
		want.SetUint64(uint64(i))
		verifAssert(t.Equal(&want), "the range table is 0..2^base-1")
	}
	verifAssert(n > 0 && n&(n-1) == 0, "the table size is a power of two")
	for i := range queries {
		verifAssume(verifFIsIntBelow(verifVal(queries[i][0]), uint64(n)))
		verifNbQueries++
	}
	return nil
}

func verifHarness_commitRangeCheck() {
	widths := []int{1, 2, 3, 5, 7}
	nb := 1 + verifChoose(2)
	c := &commitChecker{}
	vals := make([]fr.Element, nb)
	bits := make([]int, nb)
	for i := 0; i < nb; i++ {
		bits[i] = widths[verifChoose(len(widths))]
		vals[i] = verifNondetFr("checked") // any field element
		c.Check(vals[i], bits[i])
	}
	verifNbQueries = 0
	api := &verifAPI{comp: &verifCompiler{}}
	err := c.commit(api)
	verifAssert(err == nil, "commit succeeds")
	verifAssert(verifNbQueries >= nb, "every checked variable contributes queries")
	for i := 0; i < nb; i++ {
		verifAssert(verifFIsIntBelow(vals[i], uint64(1)<<uint(bits[i])), "constraints satisfied => the checked value is an integer below 2^bits")
	}
	verifReach("rangecheck")
}
