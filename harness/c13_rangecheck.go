package PKGNAME

// C13 harness: the REAL commitChecker.commit (limb decomposition, recomposition constraint,
// shifted most-significant limb, choice of the limb width) is executed against a symbolic
// integer API: variables are integers, hint outputs (the limbs) are ADVERSARIAL symbolic values,
// AssertIsEqual is an assumption the adversary must satisfy, and the log-derivative argument is
// replaced by its specification (every query value is an entry of the table 0..2^base-1; its
// soundness is the cryptographic part, see DESIGN.md). For 1 or 2 checked variables of widths in
// {1,2,3,5,7,8,9,12,16} (the width mix changes the limb width the gadget picks), whatever limbs
// the prover supplies: all constraints satisfied  =>  every checked value is < 2^bits.
//verif:unwind 300000
//verif:summarize logderivarg.Build verifSummary_logderivBuild
//verif:replay interpreter

import (
	"math/big"

	"github.com/consensys/gnark/constraint/solver"
	"github.com/consensys/gnark/frontend"
	"github.com/consensys/gnark/std/internal/logderivarg"
)

type verifCompiler struct {
	frontend.Compiler
}

func (c *verifCompiler) NewHint(f solver.Hint, nbOutputs int, inputs ...frontend.Variable) ([]frontend.Variable, error) {
	outs := make([]frontend.Variable, nbOutputs)
	for i := range outs {
		v := verifNondetU64("limb") // adversarial hint output
		verifAssume(v < 1<<20)       // larger values cannot be table entries (tables have at most 2^17 rows)
		outs[i] = v
	}
	return outs, nil
}

type verifAPI struct {
	frontend.API
	comp *verifCompiler
}

func verifVal(v frontend.Variable) uint64 {
	switch t := v.(type) {
	case uint64:
		return t
	case int:
		return uint64(t)
	case *big.Int:
		return t.Uint64()
	}
	panic("unexpected variable type")
}

func (a *verifAPI) Compiler() frontend.Compiler { return a.comp }
func (a *verifAPI) Add(i1, i2 frontend.Variable, in ...frontend.Variable) frontend.Variable {
	r := verifVal(i1) + verifVal(i2)
	for _, x := range in {
		r += verifVal(x)
	}
	return r
}
func (a *verifAPI) Mul(i1, i2 frontend.Variable, in ...frontend.Variable) frontend.Variable {
	r := verifVal(i1) * verifVal(i2)
	for _, x := range in {
		r *= verifVal(x)
	}
	return r
}
func (a *verifAPI) AssertIsEqual(i1, i2 frontend.Variable) { verifAssume(verifVal(i1) == verifVal(i2)) }

var verifNbQueries int

// specification of the log-derivative argument: the table is 0..n-1 and every query is in it
func verifSummary_logderivBuild(api frontend.API, table logderivarg.Table, queries logderivarg.Table) error {
	n := len(table)
	for i := range table {
		verifAssert(len(table[i]) == 1 && verifVal(table[i][0]) == uint64(i), "the range table is 0..2^base-1")
	}
	pow2 := n > 0 && n&(n-1) == 0
	verifAssert(pow2, "the table size is a power of two")
	for i := range queries {
		verifAssume(verifVal(queries[i][0]) < uint64(n))
		verifNbQueries++
	}
	return nil
}

func verifHarness_commitRangeCheck() {
	widths := []int{1, 2, 3, 5, 7, 8, 9, 12, 16}
	nb := 1 + verifChoose(2)
	c := &commitChecker{}
	vals := make([]uint64, nb)
	bits := make([]int, nb)
	for i := 0; i < nb; i++ {
		bits[i] = widths[verifChoose(len(widths))]
		vals[i] = verifNondetU64("checked")
		verifAssume(vals[i] < 1<<40) // the recomposition of in-table limbs is far below the field size
		c.Check(vals[i], bits[i])
	}
	verifNbQueries = 0
	api := &verifAPI{comp: &verifCompiler{}}
	err := c.commit(api)
	verifAssert(err == nil, "commit succeeds")
	verifAssert(verifNbQueries >= nb, "every checked variable contributes queries")
	for i := 0; i < nb; i++ {
		verifAssert(vals[i] < uint64(1)<<uint(bits[i]), "constraints satisfied => the checked value is below 2^bits")
	}
	verifReach("rangecheck")
}
