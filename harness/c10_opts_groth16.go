package PKGNAME

// C10 harness: two Prove calls sharing one caller-owned slice of solver options. Prove is the
// real function; it is cut right after it has assembled its solver options (the constraint
// system's Solve is replaced by a recording stand-in that returns an error). Whatever the spare
// capacity of the caller's slice, Prove must not write into the caller's backing array, and each
// call must hand its own hint override to the solver.
//verif:unwind 300
//verif:summarize system).Solve verifSummary_Solve
//verif:init GROTHPKG
//verif:replay interpreter

import (
	"errors"

	"github.com/consensys/gnark/backend"
	"github.com/consensys/gnark/backend/witness"
	"github.com/consensys/gnark/constraint"
	cs "github.com/consensys/gnark/constraint/CURVE"
	"github.com/consensys/gnark/constraint/solver"
)

var verifSeenOpts [][]solver.Option

func verifSummary_Solve(c *cs.R1CS, w witness.Witness, opts ...solver.Option) (any, error) {
	verifSeenOpts = append(verifSeenOpts, opts)
	return nil, errors.New("stop after option assembly")
}

func verifHarness_proveOptionSliceAliasing() {
	spare := 2 * verifChoose(2) // spare capacity of the caller's slice: 0 or 2
	nOpts := verifChoose(2)     // options already in it: 0 or 1
	shared := make([]solver.Option, nOpts, nOpts+spare)
	for i := range shared {
		shared[i] = solver.WithNbTasks(1)
	}
	r1cs := &cs.R1CS{}
	r1cs.CommitmentInfo = constraint.Groth16Commitments{}
	pk := &ProvingKey{}
	verifSeenOpts = nil
	_, err1 := Prove(r1cs, pk, nil, backend.WithSolverOptions(shared...))
	_, err2 := Prove(r1cs, pk, nil, backend.WithSolverOptions(shared...))
	verifAssert(err1 != nil && err2 != nil, "both calls stop at the stand-in Solve")
	full := shared[:cap(shared)]
	for i := nOpts; i < len(full); i++ {
		verifAssert(full[i] == nil, "Prove does not write into the spare capacity of the caller's option slice")
	}
	verifAssert(len(verifSeenOpts) == 2, "Solve called once per Prove")
	for _, o := range verifSeenOpts {
		verifAssert(len(o) == nOpts+1, "the solver gets the caller's options plus the commitment hint override")
	}
	verifReach("prove-options")
}
