package PKGNAME

// Intrinsics of the harness idiom, native flavour: used to replay a solver
// counterexample against the real build (go test -overlay). Values are consumed in
// call order from the file named by VERIF_REPLAY.

import (
	"encoding/json"
	"fmt"
	"os"
	"strconv"
	"strings"
)

type verifReplayData struct {
	Values  []string `json:"values"`  // nondet values in call order (SMT-LIB syntax)
	Chooses []int    `json:"chooses"` // results of verifChoose in call order
}

type verifAssumeViolated struct{}

var (
	verifData     verifReplayData
	verifPos      int
	verifChoosePos int
	verifFailures []string
	verifReached  []string
)

func verifLoad() {
	b, err := os.ReadFile(os.Getenv("VERIF_REPLAY"))
	if err != nil {
		panic(err)
	}
	if err := json.Unmarshal(b, &verifData); err != nil {
		panic(err)
	}
	verifPos, verifChoosePos, verifFailures, verifReached = 0, 0, nil, nil
}

func verifNext() string {
	if verifPos >= len(verifData.Values) {
		panic(fmt.Sprintf("replay: more nondet calls (%d) than recorded values", verifPos+1))
	}
	v := verifData.Values[verifPos]
	verifPos++
	return strings.TrimSpace(v)
}

func verifParseBV(s string) uint64 {
	if strings.HasPrefix(s, "#x") {
		v, err := strconv.ParseUint(s[2:], 16, 64)
		if err != nil {
			panic(err)
		}
		return v
	}
	if strings.HasPrefix(s, "#b") {
		v, err := strconv.ParseUint(s[2:], 2, 64)
		if err != nil {
			panic(err)
		}
		return v
	}
	panic("replay: not a bit-vector value: " + s)
}

func verifNondetInt(name string) int    { return int(int64(verifParseBV(verifNext()))) }
func verifNondetU32(name string) uint32 { return uint32(verifParseBV(verifNext())) }
func verifNondetU64(name string) uint64 { return verifParseBV(verifNext()) }
func verifNondetByte(name string) byte  { return byte(verifParseBV(verifNext())) }
func verifNondetBool(name string) bool  { return verifNext() == "true" }
func verifChoose(n int) int {
	if verifChoosePos >= len(verifData.Chooses) {
		panic("replay: more verifChoose calls than recorded")
	}
	v := verifData.Chooses[verifChoosePos]
	verifChoosePos++
	return v
}
func verifAssume(b bool) {
	if !b {
		panic(verifAssumeViolated{})
	}
}
func verifAssert(b bool, msg string) {
	if !b {
		verifFailures = append(verifFailures, msg)
	}
}
func verifReach(label string)     { verifReached = append(verifReached, label) }
func verifAnd(a, b bool) bool     { return a && b }
func verifOr(a, b bool) bool      { return a || b }
func verifImplies(a, b bool) bool { return !a || b }
func verifB2I(b bool) int {
	if b {
		return 1
	}
	return 0
}
func verifIteInt(c bool, a, b int) int {
	if c {
		return a
	}
	return b
}
func verifCanBe(b bool, label string) {}
func verifAtomCount() int                      { return 0 }
func verifAtomIs(i int, name string) bool      { return false }
func verifAtomNArgs(i int) int                 { return 0 }
func verifAtomArg(i, k int, v any) bool        { return false }
func verifAssertCanBe(b bool, msg string) {}

func verifIteU32(c bool, a, b uint32) uint32 {
	if c {
		return a
	}
	return b
}
