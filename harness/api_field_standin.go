package PKGNAME

// frontend.API stand-in over FIELD values (algebra model): a variable is a symbolic fr.Element;
// constants (int, *big.Int, big.Int) are converted with SetInt64 / SetBigInt. Only the arithmetic
// the algebraic hash gadgets use.

import (
	"math/big"

	"FRPKG"
	"github.com/consensys/gnark/frontend"
)

type verifFV struct{ e fr.Element }

type verifFieldEng struct{ frontend.API }

func verifFE(x frontend.Variable) fr.Element {
	var e fr.Element
	switch t := x.(type) {
	case verifFV:
		return t.e
	case fr.Element:
		return t
	case int:
		e.SetInt64(int64(t))
	case *big.Int:
		e.SetBigInt(t)
	case big.Int:
		e.SetBigInt(&t)
	default:
		panic("unexpected variable type in the field stand-in")
	}
	return e
}

func (a *verifFieldEng) Add(i1, i2 frontend.Variable, in ...frontend.Variable) frontend.Variable {
	r, y := verifFE(i1), verifFE(i2)
	r.Add(&r, &y)
	for _, x := range in {
		y = verifFE(x)
		r.Add(&r, &y)
	}
	return verifFV{r}
}
func (a *verifFieldEng) Sub(i1, i2 frontend.Variable, in ...frontend.Variable) frontend.Variable {
	r, y := verifFE(i1), verifFE(i2)
	r.Sub(&r, &y)
	for _, x := range in {
		y = verifFE(x)
		r.Sub(&r, &y)
	}
	return verifFV{r}
}
func (a *verifFieldEng) Mul(i1, i2 frontend.Variable, in ...frontend.Variable) frontend.Variable {
	r, y := verifFE(i1), verifFE(i2)
	r.Mul(&r, &y)
	for _, x := range in {
		y = verifFE(x)
		r.Mul(&r, &y)
	}
	return verifFV{r}
}
func (a *verifFieldEng) Neg(i1 frontend.Variable) frontend.Variable {
	r := verifFE(i1)
	r.Neg(&r)
	return verifFV{r}
}
func (a *verifFieldEng) MulAcc(x, b, c frontend.Variable) frontend.Variable {
	r, y, z := verifFE(x), verifFE(b), verifFE(c)
	y.Mul(&y, &z)
	r.Add(&r, &y)
	return verifFV{r}
}
