package PKGNAME

// frontend.API stand-in over FIELD values (algebra model): a variable is a symbolic fr.Element;
// constants (int, *big.Int, big.Int) are converted with SetInt64 / SetBigInt. Only the arithmetic
// the algebraic hash gadgets use.

import (
	"math/big"

	"FRPKG"
	"github.com/consensys/gnark/frontend"
)

type verifFV struct{ e fr.Element }

type verifFieldEng struct {
	frontend.API
	eqs []bool // outcome of every AssertIsEqual, in order
}

func verifFE(x frontend.Variable) fr.Element {
	var e fr.Element
	switch t := x.(type) {
	case verifFV:
		return t.e
	case fr.Element:
		return t
	case int:
		e.SetInt64(int64(t))
	case *big.Int:
		e.SetBigInt(t)
	case big.Int:
		e.SetBigInt(&t)
	default:
		panic("unexpected variable type in the field stand-in")
	}
	return e
}

func (a *verifFieldEng) Add(i1, i2 frontend.Variable, in ...frontend.Variable) frontend.Variable {
	r, y := verifFE(i1), verifFE(i2)
	r.Add(&r, &y)
	for _, x := range in {
		y = verifFE(x)
		r.Add(&r, &y)
	}
	return verifFV{r}
}
func (a *verifFieldEng) Sub(i1, i2 frontend.Variable, in ...frontend.Variable) frontend.Variable {
	r, y := verifFE(i1), verifFE(i2)
	r.Sub(&r, &y)
	for _, x := range in {
		y = verifFE(x)
		r.Sub(&r, &y)
	}
	return verifFV{r}
}
func (a *verifFieldEng) Mul(i1, i2 frontend.Variable, in ...frontend.Variable) frontend.Variable {
	r, y := verifFE(i1), verifFE(i2)
	r.Mul(&r, &y)
	for _, x := range in {
		y = verifFE(x)
		r.Mul(&r, &y)
	}
	return verifFV{r}
}
func (a *verifFieldEng) Neg(i1 frontend.Variable) frontend.Variable {
	r := verifFE(i1)
	r.Neg(&r)
	return verifFV{r}
}
func (a *verifFieldEng) MulAcc(x, b, c frontend.Variable) frontend.Variable {
	r, y, z := verifFE(x), verifFE(b), verifFE(c)
	y.Mul(&y, &z)
	r.Add(&r, &y)
	return verifFV{r}
}

func (a *verifFieldEng) DivUnchecked(i1, i2 frontend.Variable) frontend.Variable {
	r, y := verifFE(i1), verifFE(i2)
	y.Inverse(&y)
	r.Mul(&r, &y)
	return verifFV{r}
}
func (a *verifFieldEng) AssertIsEqual(i1, i2 frontend.Variable) {
	x, y := verifFE(i1), verifFE(i2)
	a.eqs = append(a.eqs, x.Equal(&y))
}

// boolean-valued results are the field elements 0 / 1 (the harness branches on symbolic tests)
func verifBoolFV(b bool) verifFV {
	var e fr.Element
	if b {
		e.SetOne()
	}
	return verifFV{e}
}
func (a *verifFieldEng) IsZero(i1 frontend.Variable) frontend.Variable {
	x := verifFE(i1)
	return verifBoolFV(x.IsZero())
}
func (a *verifFieldEng) And(i1, i2 frontend.Variable) frontend.Variable {
	x, y := verifFE(i1), verifFE(i2)
	return verifBoolFV(!x.IsZero() && !y.IsZero())
}
func (a *verifFieldEng) Select(b, i1, i2 frontend.Variable) frontend.Variable {
	c := verifFE(b)
	if !c.IsZero() {
		return verifFV{verifFE(i1)}
	}
	return verifFV{verifFE(i2)}
}
func (a *verifFieldEng) Div(i1, i2 frontend.Variable) frontend.Variable {
	r, y := verifFE(i1), verifFE(i2)
	verifAssert(!y.IsZero(), "Div is never given a zero divisor (it would make the circuit unsatisfiable)")
	y.Inverse(&y)
	r.Mul(&r, &y)
	return verifFV{r}
}
