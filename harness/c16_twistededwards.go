package PKGNAME

// C16 harness (twisted Edwards, native field): the gadget's affine addition, doubling, negation
// and curve-membership assertion against the textbook formulas of the twisted Edwards group law
//   (x1,y1)+(x2,y2) = ( (x1y2+y1x2)/(1+d x1x2y1y2) , (y1y2-a x1x2)/(1-d x1x2y1y2) )
// for ALL field values of the coordinates and of the curve parameters a, d (algebra model), under
// the assumption that the denominators are non-zero (true for points of a curve with a square and
// d non-square: the law is complete - so equal points, opposite points and the neutral element are
// included). The gadget runs against the field-valued API stand-in.
//verif:unwind 400
//verif:replay interpreter

import (
	"math/big"

	"FRPKG"
)

func verifHarness_twistedEdwardsGroupLaw() {
	a, d := verifNondetFr("a"), verifNondetFr("d")
	x1, y1, x2, y2 := verifNondetFr("x1"), verifNondetFr("y1"), verifNondetFr("x2"), verifNondetFr("y2")
	A, D := new(big.Int), new(big.Int)
	a.BigInt(A)
	d.BigInt(D)
	curve := &CurveParams{A: A, D: D}
	api := &verifFieldEng{}
	var one, two fr.Element
	one.SetOne()
	two.SetUint64(2)

	// ---- addition
	var t, dxy, den1, den2, nx, ny, wantX, wantY fr.Element
	dxy.Mul(&x1, &x2).Mul(&dxy, &y1).Mul(&dxy, &y2).Mul(&dxy, &d)
	den1.Add(&one, &dxy)
	den2.Sub(&one, &dxy)
	verifAssume(!den1.IsZero())
	verifAssume(!den2.IsZero())
	nx.Mul(&x1, &y2)
	t.Mul(&y1, &x2)
	nx.Add(&nx, &t)
	ny.Mul(&y1, &y2)
	t.Mul(&x1, &x2).Mul(&t, &a)
	ny.Sub(&ny, &t)
	den1.Inverse(&den1)
	den2.Inverse(&den2)
	wantX.Mul(&nx, &den1)
	wantY.Mul(&ny, &den2)
	p1 := &Point{X: verifFV{x1}, Y: verifFV{y1}}
	p2 := &Point{X: verifFV{x2}, Y: verifFV{y2}}
	var r Point
	r.add(api, p1, p2, curve)
	gx, gy := verifFE(r.X), verifFE(r.Y)
	verifAssert(gx.Equal(&wantX), "add: x3 = (x1y2 + y1x2) / (1 + d x1x2y1y2)")
	verifAssert(gy.Equal(&wantY), "add: y3 = (y1y2 - a x1x2) / (1 - d x1x2y1y2)")

	// ---- doubling
	var axx, yy, dd1, dd2, n1, n2, wX, wY fr.Element
	axx.Mul(&x1, &x1).Mul(&axx, &a)
	yy.Mul(&y1, &y1)
	dd1.Add(&axx, &yy)
	dd2.Sub(&two, &dd1)
	verifAssume(!dd1.IsZero())
	verifAssume(!dd2.IsZero())
	n1.Mul(&x1, &y1).Mul(&n1, &two)
	n2.Sub(&yy, &axx)
	dd1.Inverse(&dd1)
	dd2.Inverse(&dd2)
	wX.Mul(&n1, &dd1)
	wY.Mul(&n2, &dd2)
	var dbl Point
	dbl.double(api, p1, curve)
	gx, gy = verifFE(dbl.X), verifFE(dbl.Y)
	verifAssert(gx.Equal(&wX), "double: x3 = 2xy / (a x^2 + y^2)")
	verifAssert(gy.Equal(&wY), "double: y3 = (y^2 - a x^2) / (2 - a x^2 - y^2)")

	// ---- negation
	var ng Point
	ng.neg(api, p1)
	var nxx fr.Element
	nxx.Neg(&x1)
	gx, gy = verifFE(ng.X), verifFE(ng.Y)
	verifAssert(gx.Equal(&nxx) && gy.Equal(&y1), "neg: (-x, y)")

	// ---- membership: the assertion holds exactly on the curve a x^2 + y^2 = 1 + d x^2 y^2
	api.eqs = nil
	p1.assertIsOnCurve(api, curve)
	var lhs, rhs fr.Element
	lhs.Add(&axx, &yy)
	rhs.Mul(&x1, &x1).Mul(&rhs, &yy).Mul(&rhs, &d).Add(&rhs, &one)
	verifAssert(len(api.eqs) == 1, "one equality constraint")
	if len(api.eqs) == 1 {
		verifAssert(api.eqs[0] == lhs.Equal(&rhs), "assertIsOnCurve holds exactly for points of the curve")
	}
	verifReach("group-law")
}
