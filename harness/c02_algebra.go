package PKGNAME

// C02 harness (the verifier's algebra): the real PLONK Verify with the Fiat-Shamir challenges,
// the multi-exponentiation and the two KZG calls replaced by recording stand-ins; everything the
// verifier computes itself runs in the algebra model: symbolic challenges gamma, beta, alpha, zeta,
// claimed values, public inputs, generator w, coset shift u, 1/n (n = 4), 0..2 public inputs,
// 0..1 BSB22 commitment at constraint index 0 or 1.
// Accept (both KZG stand-ins say yes) implies
//   * the challenges are derived from the proof elements the paper prescribes, in order
//   * claimed[0] = -( PI(zeta) + alpha*(l+beta*s1+gamma)(r+beta*s2+gamma)(o+gamma)*zu - alpha^2*L1(zeta) )
//     with PI(zeta) = sum_i w_i L_i(zeta) + sum_j H(cmt_j) L_{nbPublic+cci_j}(zeta),
//     L_i(zeta) = w^i (zeta^n - 1) / (n (zeta - w^i))  -- hence a proof accepted for two public
//     input vectors has equal PI(zeta)
//   * the linearised digest is the prescribed combination of key and proof commitments
//   * the batch opening is checked for (lin, L, R, O, S1, S2, Qcp...) at zeta against the claimed
//     values in that order, and Z at w*zeta against zu
//verif:unwind 4000
//verif:summarize CRVNAME.deriveRandomness verifSummary_deriveRandomness
//verif:summarize G1Affine).MultiExp verifSummary_MultiExp
//verif:summarize kzg.FoldProof verifSummary_FoldProof
//verif:summarize kzg.BatchVerifyMultiPoints verifSummary_BatchVerifyMultiPoints
//verif:init PLONKPKG
//verif:replay interpreter

import (
	"hash"

	curve "CURVEPKG"
	"CURVEPKG/fr"
	"CURVEPKG/kzg"
	fiatshamir "github.com/consensys/gnark-crypto/fiat-shamir"
	"github.com/consensys/gnark-crypto/ecc"
	"github.com/consensys/gnark/backend"
)

type verifRecHash struct {
	data   []byte
	inputs [][]byte
}

var verifADigest []byte

func (h *verifRecHash) Write(p []byte) (int, error) { h.data = append(h.data, p...); return len(p), nil }
func (h *verifRecHash) Sum(b []byte) []byte {
	h.inputs = append(h.inputs, append([]byte{}, h.data...))
	return append(b, verifADigest...)
}
func (h *verifRecHash) Reset()         { h.data = nil }
func (h *verifRecHash) Size() int      { return len(verifADigest) }
func (h *verifRecHash) BlockSize() int { return 64 }

type verifDerivation struct {
	name   string
	points []*curve.G1Affine
}

var (
	verifChallenges  map[string]fr.Element
	verifDerived     []verifDerivation
	verifMEPoints    []curve.G1Affine
	verifMEScalars   []fr.Element
	verifFoldDigests []kzg.Digest
	verifFoldClaims  []fr.Element
	verifFoldPoint   fr.Element
	verifBatchDig    []kzg.Digest
	verifBatchProofs []kzg.OpeningProof
	verifBatchPoints []fr.Element
	verifFolded      kzg.Digest
)

func verifSummary_deriveRandomness(fs *fiatshamir.Transcript, challenge string, points ...*curve.G1Affine) (fr.Element, error) {
	verifDerived = append(verifDerived, verifDerivation{challenge, points})
	return verifChallenges[challenge], nil
}

func verifSummary_MultiExp(p *curve.G1Affine, points []curve.G1Affine, scalars []fr.Element, config ecc.MultiExpConfig) (*curve.G1Affine, error) {
	verifMEPoints = append([]curve.G1Affine{}, points...)
	verifMEScalars = append([]fr.Element{}, scalars...)
	p.X.SetUint64(1000) // marker of the linearised digest
	return p, nil
}

func verifSummary_FoldProof(digests []kzg.Digest, batchOpeningProof *kzg.BatchOpeningProof, point fr.Element, hf hash.Hash, dataTranscript ...[]byte) (kzg.OpeningProof, kzg.Digest, error) {
	verifFoldDigests = append([]kzg.Digest{}, digests...)
	verifFoldClaims = append([]fr.Element{}, batchOpeningProof.ClaimedValues...)
	verifFoldPoint = point
	var d kzg.Digest
	d.X.SetUint64(2000) // marker of the folded digest
	var op kzg.OpeningProof
	op.H.X.SetUint64(2001)
	return op, d, nil
}

func verifSummary_BatchVerifyMultiPoints(digests []kzg.Digest, proofs []kzg.OpeningProof, points []fr.Element, vk kzg.VerifyingKey) error {
	verifBatchDig = append([]kzg.Digest{}, digests...)
	verifBatchProofs = append([]kzg.OpeningProof{}, proofs...)
	verifBatchPoints = append([]fr.Element{}, points...)
	return nil
}

func verifMark(p *curve.G1Affine, k uint64) { p.X.SetUint64(k) }
func verifIsMark(p *curve.G1Affine, k uint64) bool {
	var m curve.G1Affine
	m.X.SetUint64(k)
	return p.X.Equal(&m.X)
}

const verifN = 4

func verifHarness_plonkVerifyAlgebra() {
	nbPublic := verifChoose(3)
	nbCommit := verifChoose(2)
	cci := verifChoose(2)

	vk := &VerifyingKey{Size: verifN, NbPublicVariables: uint64(nbPublic)}
	vk.SizeInv = verifNondetFr("sizeInv")
	vk.Generator = verifNondetFr("w")
	vk.CosetShift = verifNondetFr("u")
	var n, chk, one fr.Element
	one.SetOne()
	n.SetUint64(verifN)
	chk.Mul(&n, &vk.SizeInv)
	verifAssume(chk.Equal(&one)) // Setup invariant: SizeInv = 1/Size
	verifMark(&vk.S[0], 10)
	verifMark(&vk.S[1], 11)
	verifMark(&vk.S[2], 12)
	verifMark(&vk.Ql, 20)
	verifMark(&vk.Qr, 21)
	verifMark(&vk.Qm, 22)
	verifMark(&vk.Qo, 23)
	verifMark(&vk.Qk, 24)
	vk.Qcp = make([]kzg.Digest, nbCommit)
	vk.CommitmentConstraintIndexes = make([]uint64, nbCommit)
	for i := range vk.Qcp {
		verifMark(&vk.Qcp[i], 30+uint64(i))
		vk.CommitmentConstraintIndexes[i] = uint64(cci)
	}
	proof := &Proof{}
	verifMark(&proof.LRO[0], 40)
	verifMark(&proof.LRO[1], 41)
	verifMark(&proof.LRO[2], 42)
	verifMark(&proof.Z, 43)
	verifMark(&proof.H[0], 44)
	verifMark(&proof.H[1], 45)
	verifMark(&proof.H[2], 46)
	proof.Bsb22Commitments = make([]kzg.Digest, nbCommit)
	for i := range proof.Bsb22Commitments {
		verifMark(&proof.Bsb22Commitments[i], 50+uint64(i))
	}
	verifMark(&proof.BatchedProof.H, 60)
	verifMark(&proof.ZShiftedOpening.H, 61)
	proof.BatchedProof.ClaimedValues = make([]fr.Element, 6+nbCommit)
	for i := range proof.BatchedProof.ClaimedValues {
		proof.BatchedProof.ClaimedValues[i] = verifNondetFr("claimed")
	}
	proof.ZShiftedOpening.ClaimedValue = verifNondetFr("zu")
	w := make(fr.Vector, nbPublic)
	for i := range w {
		w[i] = verifNondetFr("pub")
	}
	verifChallenges = map[string]fr.Element{"gamma": verifNondetFr("gamma"), "beta": verifNondetFr("beta"), "alpha": verifNondetFr("alpha"), "zeta": verifNondetFr("zeta")}
	verifDerived, verifMEPoints, verifMEScalars, verifFoldDigests, verifBatchDig = nil, nil, nil, nil, nil
	verifADigest = make([]byte, fr.Bytes-8+12*verifChoose(3)) // digest shorter than / as long as... / longer than a field element
	for i := range verifADigest {
		verifADigest[i] = verifNondetByte("digest")
	}
	h := &verifRecHash{}

	err := Verify(proof, vk, w, backend.WithVerifierHashToFieldFunction(h))
	if err != nil {
		verifReach("reject")
		return
	}
	verifReach("accept")

	// ---- challenges
	verifAssert(len(verifDerived) == 4, "four challenges are derived")
	if len(verifDerived) != 4 {
		return
	}
	d := verifDerived
	verifAssert(d[0].name == "gamma" && len(d[0].points) == 3 && d[0].points[0] == &proof.LRO[0] && d[0].points[1] == &proof.LRO[1] && d[0].points[2] == &proof.LRO[2], "gamma is derived from [L],[R],[O]")
	verifAssert(d[1].name == "beta" && len(d[1].points) == 0, "beta is derived next, from the transcript only")
	verifAssert(d[2].name == "alpha" && len(d[2].points) == nbCommit+1 && d[2].points[nbCommit] == &proof.Z, "alpha is derived from the BSB22 commitments and [Z]")
	for i := 0; i < nbCommit && i < len(d[2].points); i++ {
		verifAssert(d[2].points[i] == &proof.Bsb22Commitments[i], "alpha binds every BSB22 commitment")
	}
	verifAssert(d[3].name == "zeta" && len(d[3].points) == 3 && d[3].points[0] == &proof.H[0] && d[3].points[1] == &proof.H[1] && d[3].points[2] == &proof.H[2], "zeta is derived from the quotient commitments")

	gamma, beta, alpha, zeta := verifChallenges["gamma"], verifChallenges["beta"], verifChallenges["alpha"], verifChallenges["zeta"]
	cv := proof.BatchedProof.ClaimedValues
	l, r, o, s1, s2, zu := cv[1], cv[2], cv[3], cv[4], cv[5], proof.ZShiftedOpening.ClaimedValue

	// ---- reference: Lagrange basis at zeta
	var zn, zh fr.Element
	zn.SetOne()
	for k := 0; k < verifN; k++ {
		zn.Mul(&zn, &zeta)
	}
	zh.Sub(&zn, &one)
	lagrange := func(i int) fr.Element {
		var wi, den, res fr.Element
		wi.SetOne()
		for k := 0; k < i; k++ {
			wi.Mul(&wi, &vk.Generator)
		}
		den.Sub(&zeta, &wi)
		verifAssume(!den.IsZero()) // zeta outside the domain (overwhelming probability)
		den.Inverse(&den)
		res.Mul(&wi, &zh).Mul(&res, &den).Mul(&res, &vk.SizeInv)
		return res
	}
	var pi, t fr.Element
	for i := 0; i < nbPublic; i++ {
		li := lagrange(i)
		t.Mul(&li, &w[i])
		pi.Add(&pi, &t)
	}
	if nbCommit == 1 {
		verifAssert(len(h.inputs) == 1, "one hash per BSB22 commitment")
		if len(h.inputs) == 1 {
			want := proof.Bsb22Commitments[0].Marshal()
			verifAssert(len(h.inputs[0]) == len(want), "the verifier hashes the marshalled BSB22 commitment")
			for k := 0; k < len(want) && k < len(h.inputs[0]); k++ {
				verifAssert(h.inputs[0][k] == want[k], "the verifier hashes the marshalled BSB22 commitment")
			}
		}
		var hc fr.Element
		nb := len(verifADigest)
		if nb > fr.Bytes {
			nb = fr.Bytes
		}
		hc.SetBytes(verifADigest[:nb]) // the first min(Size, fr.Bytes) bytes of the digest: what the prover's hint maps too (c03_plonk_challenge.go)
		li := lagrange(nbPublic + cci)
		t.Mul(&li, &hc)
		pi.Add(&pi, &t)
	}
	l0 := lagrange(0)
	var a, b, c, perm, a2l0, want fr.Element
	a.Mul(&beta, &s1).Add(&a, &l).Add(&a, &gamma)
	b.Mul(&beta, &s2).Add(&b, &r).Add(&b, &gamma)
	c.Add(&o, &gamma)
	perm.Mul(&a, &b).Mul(&perm, &c).Mul(&perm, &alpha).Mul(&perm, &zu)
	a2l0.Mul(&alpha, &alpha).Mul(&a2l0, &l0)
	want.Add(&pi, &perm).Sub(&want, &a2l0).Neg(&want)
	verifAssert(cv[0].Equal(&want), "accept => claimed[0] = -(PI(zeta) + alpha*(l+beta*s1+gamma)(r+beta*s2+gamma)(o+gamma)*zu - alpha^2*L1(zeta))")

	// ---- the linearised digest
	np := nbCommit + 10
	verifAssert(len(verifMEPoints) == np && len(verifMEScalars) == np, "the linearised digest combines the BSB22 commitments and 10 key/proof commitments")
	if len(verifMEPoints) != np || len(verifMEScalars) != np {
		return
	}
	P, S := verifMEPoints[nbCommit:], verifMEScalars[nbCommit:]
	for i := 0; i < nbCommit; i++ {
		verifAssert(verifIsMark(&verifMEPoints[i], 50+uint64(i)) && verifMEScalars[i].Equal(&cv[6+i]), "qcp_i(zeta) * [Pi_i]")
	}
	var rl, sa, sb, sc, s1c, s2c, cz, u2, e1, e2, e3 fr.Element
	rl.Mul(&l, &r)
	verifAssert(verifIsMark(&P[0], 20) && S[0].Equal(&l), "l(zeta)*[Ql]")
	verifAssert(verifIsMark(&P[1], 21) && S[1].Equal(&r), "r(zeta)*[Qr]")
	verifAssert(verifIsMark(&P[2], 22) && S[2].Equal(&rl), "l(zeta)r(zeta)*[Qm]")
	verifAssert(verifIsMark(&P[3], 23) && S[3].Equal(&o), "o(zeta)*[Qo]")
	verifAssert(verifIsMark(&P[4], 24) && S[4].Equal(&one), "[Qk]")
	s1c.Mul(&a, &b).Mul(&s1c, &beta).Mul(&s1c, &alpha).Mul(&s1c, &zu)
	verifAssert(verifIsMark(&P[5], 12) && S[5].Equal(&s1c), "alpha*(l+beta*s1+gamma)(r+beta*s2+gamma)*beta*zu*[S3]")
	sa.Mul(&beta, &zeta).Add(&sa, &l).Add(&sa, &gamma)
	sb.Mul(&beta, &vk.CosetShift).Mul(&sb, &zeta).Add(&sb, &r).Add(&sb, &gamma)
	u2.Mul(&vk.CosetShift, &vk.CosetShift)
	sc.Mul(&beta, &u2).Mul(&sc, &zeta).Add(&sc, &o).Add(&sc, &gamma)
	s2c.Mul(&sa, &sb).Mul(&s2c, &sc).Mul(&s2c, &alpha).Neg(&s2c)
	cz.Add(&a2l0, &s2c)
	verifAssert(verifIsMark(&P[6], 43) && S[6].Equal(&cz), "(alpha^2*L1(zeta) - alpha*(l+beta*zeta+gamma)(r+beta*u*zeta+gamma)(o+beta*u^2*zeta+gamma))*[Z]")
	e1.Neg(&zh)
	var zn2 fr.Element
	zn2.Mul(&zn, &zeta).Mul(&zn2, &zeta) // zeta^(n+2)
	e2.Mul(&zn2, &zh).Neg(&e2)
	e3.Mul(&zn2, &zn2).Mul(&e3, &zh).Neg(&e3)
	verifAssert(verifIsMark(&P[7], 44) && S[7].Equal(&e1), "-(zeta^n-1)*[H0]")
	verifAssert(verifIsMark(&P[8], 45) && S[8].Equal(&e2), "-zeta^(n+2)(zeta^n-1)*[H1]")
	verifAssert(verifIsMark(&P[9], 46) && S[9].Equal(&e3), "-zeta^(2(n+2))(zeta^n-1)*[H2]")

	// ---- openings
	verifAssert(len(verifFoldDigests) == 6+nbCommit && len(verifFoldClaims) == 6+nbCommit, "the batch opening covers lin, L, R, O, S1, S2 and every Qcp")
	if len(verifFoldDigests) == 6+nbCommit {
		marks := []uint64{1000, 40, 41, 42, 10, 11}
		for i, m := range marks {
			verifAssert(verifIsMark(&verifFoldDigests[i], m), "batch opening digests in the order of the claimed values")
		}
		for i := 0; i < nbCommit; i++ {
			verifAssert(verifIsMark(&verifFoldDigests[6+i], 30+uint64(i)), "Qcp digests follow")
		}
	}
	verifAssert(verifFoldPoint.Equal(&zeta), "the batch opening is at zeta")
	var wz fr.Element
	wz.Mul(&zeta, &vk.Generator)
	verifAssert(len(verifBatchDig) == 2 && len(verifBatchPoints) == 2 && len(verifBatchProofs) == 2, "two openings are batch verified")
	if len(verifBatchDig) == 2 && len(verifBatchPoints) == 2 && len(verifBatchProofs) == 2 {
		verifAssert(verifIsMark(&verifBatchDig[0], 2000) && verifBatchPoints[0].Equal(&zeta), "the folded digest is opened at zeta")
		verifAssert(verifIsMark(&verifBatchDig[1], 43) && verifBatchPoints[1].Equal(&wz), "[Z] is opened at w*zeta")
		verifAssert(verifIsMark(&verifBatchProofs[1].H, 61) && verifBatchProofs[1].ClaimedValue.Equal(&zu), "with the shifted opening proof and zu")
	}
	verifReach("algebra-checked")
}
