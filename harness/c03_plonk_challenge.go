package PKGNAME

// C03 harness (PLONK side of prover/verifier agreement on the commitment value): the prover's
// BSB22 hint (instance.bsb22Hint, the real method on a hand-built instance) hashes the marshalled
// commitment and maps the first min(Size, fr.Bytes) bytes of the digest to the field - the same
// rule the verifier is held to in c02_algebra.go (there through the public-input term PI(zeta)).
// Recording hash with a symbolic digest of three sizes; KZG commit is an opaque stand-in;
// encodings are opaque functions of their argument.
//verif:unwind 4000
//verif:init PLONKPKG
//verif:replay interpreter

import (
	"math/big"

	"CURVEPKG/fr"
	"CURVEPKG/fr/fft"
	"CURVEPKG/fr/iop"
	"CURVEPKG/kzg"
	"github.com/consensys/gnark/constraint"
	cs "github.com/consensys/gnark/constraint/CRVNAME"
)

type verifPHash struct {
	data   []byte
	inputs [][]byte
	digest []byte
}

func (h *verifPHash) Write(p []byte) (int, error) { h.data = append(h.data, p...); return len(p), nil }
func (h *verifPHash) Sum(b []byte) []byte {
	h.inputs = append(h.inputs, append([]byte{}, h.data...))
	return append(b, h.digest...)
}
func (h *verifPHash) Reset()         { h.data = nil }
func (h *verifPHash) Size() int      { return len(h.digest) }
func (h *verifPHash) BlockSize() int { return 64 }

func verifHarness_bsb22HintChallenge() {
	size := fr.Bytes - 8 + 12*verifChoose(3)
	h := &verifPHash{digest: make([]byte, size)}
	for i := range h.digest {
		h.digest[i] = verifNondetByte("digest")
	}
	spr := &cs.SparseR1CS{}
	spr.Type = constraint.SystemSparseR1CS
	spr.Public = make([]string, 1)
	spr.NbConstraints = 3
	spr.CommitmentInfo = constraint.PlonkCommitments{{Committed: []int{0}, CommitmentIndex: 1}}
	s := &instance{
		pk:            &ProvingKey{},
		proof:         &Proof{Bsb22Commitments: make([]kzg.Digest, 1)},
		spr:           spr,
		htfFunc:       h,
		commitmentVal: make([]fr.Element, 1),
		cCommitments:  make([]*iop.Polynomial, 1),
		domain0:       &fft.Domain{Cardinality: 4},
	}
	v := verifNondetFr("committed")
	in := []*big.Int{big.NewInt(0), new(big.Int)}
	v.BigInt(in[1])
	out := []*big.Int{new(big.Int)}
	err := s.bsb22Hint(nil, in, out)
	if err != nil {
		verifReach("hint-error") // SetRandom / kzg.Commit may fail
		return
	}
	verifAssert(len(h.inputs) == 1, "one hash per commitment")
	if len(h.inputs) != 1 {
		return
	}
	want := s.proof.Bsb22Commitments[0].Marshal()
	verifAssert(len(h.inputs[0]) == len(want), "the prover hashes the marshalled BSB22 commitment")
	for k := 0; k < len(want) && k < len(h.inputs[0]); k++ {
		verifAssert(h.inputs[0][k] == want[k], "the prover hashes the marshalled BSB22 commitment")
	}
	nb := size
	if nb > fr.Bytes {
		nb = fr.Bytes
	}
	var hc, got fr.Element
	hc.SetBytes(h.digest[:nb])
	got.SetBigInt(out[0])
	verifAssert(got.Equal(&hc), "the hint returns the field element of the first min(Size, fr.Bytes) digest bytes")
	verifAssert(s.commitmentVal[0].Equal(&hc), "and records it for the public-input polynomial")
	verifReach("challenge")
}
