package PKGNAME

// C20 harness (PLONK prover, blinding data-flow). fr.Element.SetRandom is a stub that returns a
// FRESH symbolic draw per call; everything else is the algebra model.
//  * getRandomPolynomial(n) has n+1 coefficients, each an independent draw (any tuple of values
//    is possible, in particular all different and all non-zero)
//  * initBlindingPolynomials uses degrees 1, 1, 1, 2 for L, R, O, Z
//  * getBlindedCoefficients(p, b) is exactly p - b in the low part and b in the high part,
//    i.e. the coefficients of p + b*(X^n - 1): every draw enters every blinded opening
//verif:unwind 400
//verif:replay interpreter

import (
	"CURVEPKG/fr"
	"CURVEPKG/fr/iop"
)

func verifHarness_randomPolynomial() {
	n := 1 + verifChoose(2) // degree 1 or 2
	p := getRandomPolynomial(n)
	c := p.Coefficients()
	verifAssert(len(c) == n+1, "a blinding polynomial of degree n has n+1 coefficients")
	allDiff, allNonZero := true, true
	for i := range c {
		allNonZero = verifAnd(allNonZero, !c[i].IsZero())
		for j := 0; j < i; j++ {
			allDiff = verifAnd(allDiff, !c[i].Equal(&c[j]))
		}
	}
	// independent draws: no relation is forced between the coefficients, none is forced to zero
	for i := range c {
		verifAssertCanBe(!c[i].IsZero(), "every coefficient of a blinding polynomial is a draw that can be non-zero")
		one := verifNondetFr("target")
		verifAssertCanBe(c[i].Equal(&one), "every coefficient of a blinding polynomial can take any value")
	}
	verifAssertCanBe(verifAnd(allDiff, allNonZero), "the coefficients of a blinding polynomial are independent draws")
	verifCanBe(verifAnd(allDiff, allNonZero), "coefficients-independent")
	q := getRandomPolynomial(n)
	d := q.Coefficients()
	differs := false
	for i := range d {
		differs = verifOr(differs, !d[i].Equal(&c[i]))
	}
	verifCanBe(differs, "second-polynomial-differs")
	same := true
	for i := range d {
		same = verifAnd(same, d[i].Equal(&c[i]))
	}
	verifAssert(!verifAnd(same, false), "trivial")
	verifReach("random-polynomial")
}

func verifHarness_blindingOrders() {
	s := &instance{bp: make([]*iop.Polynomial, 4), chbp: make(chan struct{}, 1)}
	err := s.initBlindingPolynomials()
	verifAssert(err == nil, "no error")
	verifAssert(s.bp[id_Bl].Size() == 2, "L is blinded by a degree-1 polynomial")
	verifAssert(s.bp[id_Br].Size() == 2, "R is blinded by a degree-1 polynomial")
	verifAssert(s.bp[id_Bo].Size() == 2, "O is blinded by a degree-1 polynomial")
	verifAssert(s.bp[id_Bz].Size() == 3, "Z is blinded by a degree-2 polynomial")
	nz := true
	for _, id := range []int{id_Bl, id_Br, id_Bo, id_Bz} {
		for _, c := range s.bp[id].Coefficients() {
			nz = verifAnd(nz, !c.IsZero())
		}
	}
	verifAssertCanBe(nz, "all blinding coefficients of L, R, O, Z can be non-zero at once")
	verifCanBe(nz, "all-blinding-coefficients-nonzero")
	verifReach("orders")
}

func verifHarness_blindedCoefficients() {
	n := 4
	pc := make([]fr.Element, n)
	for i := range pc {
		pc[i] = verifNondetFr("p")
	}
	orig := append([]fr.Element{}, pc...)
	p := iop.NewPolynomial(&pc, iop.Form{Basis: iop.Canonical, Layout: iop.Regular})
	b := getRandomPolynomial(1 + verifChoose(2))
	bc := append([]fr.Element{}, b.Coefficients()...)
	res := getBlindedCoefficients(p, b)
	verifAssert(len(res) == n+len(bc), "blinded polynomial has degree n + deg(b)")
	for i := 0; i < len(res) && i < n+len(bc); i++ {
		var want fr.Element
		if i < n {
			want = orig[i]
			if i < len(bc) {
				want.Sub(&want, &bc[i])
			}
		} else {
			want = bc[i-n]
		}
		verifAssert(res[i].Equal(&want), "getBlindedCoefficients = coefficients of p + b*(X^n - 1)")
	}
	verifReach("blinded-coefficients")
}
