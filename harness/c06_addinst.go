package PKGNAME

// C06 harness (level builder, continued): System.AddInstruction on the real System.
//verif:unwind 600
//verif:symindex 0

// System.AddInstruction on the real System: arbitrary level-builder state (3 internal wires with
// symbolic levels, 1..3 existing levels), one R1C with symbolic wire ids appended. Invariant
// assumed and re-established: every wire level is < len(Levels) ("we can't skip levels").
func verifHarness_addInstructionLevels() {
	nbLevels := verifChoose(3) + 1
	cs := &System{Public: []string{"1"}, Secret: []string{"s"}, NbInternalVariables: 3}
	cs.Blueprints = []Blueprint{&BlueprintGenericR1C{}}
	cs.lbWireLevel = make([]Level, 3)
	for i := range cs.lbWireLevel {
		l := verifNondetInt("lvl")
		verifAssume(verifAnd(l >= -1, l < nbLevels))
		cs.lbWireLevel[i] = Level(l)
	}
	for i := 0; i < nbLevels; i++ {
		cs.Levels = append(cs.Levels, []uint32{uint32(i)})
		cs.Instructions = append(cs.Instructions, PackedInstruction{})
	}
	pre := append([]Level{}, cs.lbWireLevel...)
	ws := make([]uint32, 4)
	for i := range ws {
		ws[i] = verifNondetU32("w")
		verifAssume(ws[i] < 5)
	}
	for i := range ws {
		for j := 0; j < i; j++ {
			verifAssume(verifOr(ws[i] != ws[j], verifOr(ws[i] < 2, cs.lbWireLevel[verifIteInt(ws[i] < 2, 0, int(ws[i])-2)] != LevelUnset)))
		}
	}
	calldata := []uint32{12, 1, 1, 2, 1, ws[0], 1, ws[1], 1, ws[2], 1, ws[3]}
	out := cs.AddInstruction(0, calldata)
	verifAssert(len(out) == 0, "an R1C creates no wire")
	iID := uint32(len(cs.Instructions) - 1)
	// where did the instruction land?
	got := -1
	count := 0
	for l := range cs.Levels {
		for _, id := range cs.Levels[l] {
			if id == iID {
				got = l
				count++
			}
		}
	}
	verifAssert(count == 1, "the instruction is scheduled exactly once")
	for i := 0; i < 3; i++ {
		read := verifOr(verifOr(ws[0] == uint32(i+2), ws[3] == uint32(i+2)), verifOr(ws[1] == uint32(i+2), ws[2] == uint32(i+2)))
		verifAssert(verifImplies(verifAnd(read, pre[i] != LevelUnset), got > int(pre[i])), "the instruction is scheduled strictly after every levelled wire it reads")
		verifAssert(verifImplies(verifAnd(read, pre[i] == LevelUnset), int(cs.lbWireLevel[i]) == got), "a wire the instruction solves gets the instruction's level")
		verifAssert(verifImplies(!verifAnd(read, pre[i] == LevelUnset), cs.lbWireLevel[i] == pre[i]), "other wires keep their level")
		verifAssert(int(cs.lbWireLevel[i]) < len(cs.Levels), "every wire level is an existing level")
	}
	for l := 0; l < nbLevels; l++ {
		verifAssert(cs.Levels[l][0] == uint32(l), "earlier instructions keep their level")
	}
	verifReach("add-instruction")
}
