package PKGNAME

// C20 harness (PLONK in-circuit commitments are blinded): the prover's real BSB22 hint (instance.bsb22Hint on a
// hand-built instance) builds the polynomial whose KZG commitment goes into the proof. For systems with 0..3 public
// inputs, 1..3 committed constraints starting at constraint 0 or 1, the commitment constraint right after them and
// 0..2 further constraints (domain of 16 rows), SetRandom being a fresh draw per call:
//   - every committed row (public offset + committed constraint) holds the committed value,
//   - two runs on the same committed values CAN produce different polynomials (existential obligation: some row
//     holds a fresh random value that no committed value overwrites) - otherwise the commitment in the proof is a
//     deterministic function of the witness, computable from the proving key and a guessed witness,
//   - no row other than the committed ones and the (at most two) blinded ones is non-zero.
//verif:unwind 4000
//verif:init PLONKPKG
//verif:replay interpreter

import (
	"hash"
	"math/big"

	"CURVEPKG/fr"
	"CURVEPKG/fr/fft"
	"CURVEPKG/fr/iop"
	"CURVEPKG/kzg"
	"github.com/consensys/gnark/constraint"
	cs "github.com/consensys/gnark/constraint/CRVNAME"
)

type verifBHash struct{ hash.Hash }

func (h *verifBHash) Write(p []byte) (int, error) { return len(p), nil }
func (h *verifBHash) Sum(b []byte) []byte         { return append(b, make([]byte, fr.Bytes)...) }
func (h *verifBHash) Reset()                      {}
func (h *verifBHash) Size() int                   { return fr.Bytes }

func verifBsbInstance(nbPublic, nbConstraints int, info constraint.PlonkCommitment) *instance {
	spr := &cs.SparseR1CS{}
	spr.Type = constraint.SystemSparseR1CS
	spr.Public = make([]string, nbPublic)
	spr.NbConstraints = nbConstraints
	spr.CommitmentInfo = constraint.PlonkCommitments{info}
	return &instance{
		pk:            &ProvingKey{},
		proof:         &Proof{Bsb22Commitments: make([]kzg.Digest, 1)},
		spr:           spr,
		htfFunc:       &verifBHash{},
		commitmentVal: make([]fr.Element, 1),
		cCommitments:  make([]*iop.Polynomial, 1),
		domain0:       &fft.Domain{Cardinality: 16},
	}
}

func verifHarness_bsb22HintBlinding() {
	nbPublic := verifChoose(4)
	m := 1 + verifChoose(3)
	c0 := verifChoose(2)
	after := verifChoose(3)
	committed := make([]int, m)
	for i := range committed {
		committed[i] = c0 + i
	}
	info := constraint.PlonkCommitment{Committed: committed, CommitmentIndex: c0 + m}
	nbConstraints := c0 + m + 1 + after
	vals := make([]fr.Element, m)
	var polys [2][]fr.Element
	for run := 0; run < 2; run++ {
		s := verifBsbInstance(nbPublic, nbConstraints, info)
		in := []*big.Int{big.NewInt(0)}
		for i := range vals {
			if run == 0 {
				vals[i] = verifNondetFr("committed")
			}
			b := new(big.Int)
			vals[i].BigInt(b)
			in = append(in, b)
		}
		if err := s.bsb22Hint(nil, in, []*big.Int{new(big.Int)}); err != nil {
			verifReach("hint-error") // SetRandom / kzg.Commit may fail
			return
		}
		polys[run] = s.cCommitments[0].Coefficients()
	}
	isCommitted := make([]bool, 16)
	for i, c := range committed {
		verifAssert(polys[0][nbPublic+c].Equal(&vals[i]), "every committed row holds the committed value (first run)")
		verifAssert(polys[1][nbPublic+c].Equal(&vals[i]), "every committed row holds the committed value (second run)")
		isCommitted[nbPublic+c] = true
	}
	differ := false
	nonzero := 0
	for r := 0; r < 16; r++ {
		differ = verifOr(differ, !polys[0][r].Equal(&polys[1][r]))
		if !isCommitted[r] && r != nbPublic+info.CommitmentIndex && r != nbPublic+nbConstraints-1 {
			verifAssert(polys[0][r].IsZero(), "rows that are neither committed nor blinded stay zero")
		} else {
			nonzero++
		}
	}
	verifAssertCanBe(differ, "two runs of the BSB22 hint on the same committed values can produce different polynomials (a blinded row survives)")
	verifReach("bsb22-blinding")
}
