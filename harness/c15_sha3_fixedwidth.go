package PKGNAME

// C15 harness (variable-length SHA-3 / Keccak): paddingFixedWidth computes pad10*1 in the circuit
// from the length variable (IsEqual + Select per position). Executed against the API stand-in of
// api_standin.go with symbolic message bytes, buffer of 150 bytes, rates 136 / 72, domain bytes
// 0x06 / 0x01, the lengths around the block boundaries (quick) or every length 0..150 (thorough):
// the first numberOfBlocks*rate bytes are msg[:L] || pad10*1 exactly, numberOfBlocks is
// floor(L/rate)+1.
//verif:unwind 200000
//verif:init github.com/consensys/gnark/std/hash/sha3
//verif:replay interpreter

import (
	"math/big"

	"github.com/consensys/gnark/std/math/uints"
)

func verifHarness_paddingFixedWidth() {
	const maxLen = 150
	rate := []int{136, 72}[verifChoose(2)]
	ds := []byte{0x06, 0x01}[verifChoose(2)]
	lengths := []int{0, 1, rate - 2, rate - 1, rate, rate + 1, 2*rate - 2, 2*rate - 1, maxLen}
	if "TIERNAME" == "thorough" {
		lengths = nil
		for l := 0; l <= maxLen; l++ {
			lengths = append(lengths, l)
		}
	}
	L := lengths[verifChoose(len(lengths))]
	if L > maxLen {
		verifAssume(false)
	}
	msg := make([]byte, maxLen)
	in := make([]uints.U8, maxLen)
	for i := range msg {
		msg[i] = verifNondetByte("msg")
		in[i] = uints.U8{Val: verifSym{msg[i]}}
	}
	d := &digest{api: &verifEng{comp: &verifEngCompiler{}}, in: in, rate: rate, dsbyte: ds}
	padded, nb := d.paddingFixedWidth(verifV{big.NewInt(int64(L))})
	nBlocks := L/rate + 1
	verifAssert(verifBig(nb).Cmp(big.NewInt(int64(nBlocks))) == 0, "numberOfBlocks is floor(L/rate)+1")
	total := nBlocks * rate
	verifAssert(len(padded) >= total, "the padded buffer holds every block")
	if len(padded) < total {
		return
	}
	for pos := 0; pos < total; pos++ {
		got := padded[pos].Val
		s, isSym := got.(verifSym)
		switch {
		case pos < L:
			verifAssert(isSym && s.b == msg[pos], "message bytes are absorbed unchanged, in place")
		default:
			want := byte(0)
			if pos == L {
				want ^= ds
			}
			if pos == total-1 {
				want ^= 0x80
			}
			verifAssert(!isSym && verifBig(got).Cmp(big.NewInt(int64(want))) == 0, "pad10*1: domain byte after the message, zeros, 0x80 closing the last block")
		}
	}
	verifReach("padding-fixed-width")
}
