package PKGNAME

// C19 harness (the delegated values are bound into the GKR transcript): GkrCompressions.finalize - the caller of the
// GKR API in the Poseidon2 compression gadget - with the GKR machinery behind it replaced by recording stand-ins
// (defineCircuit, API.Solve, Solution.Export, Solution.Verify; their own bookkeeping is the subject of the other C19
// harnesses) and a parent API that records AssertIsEqual and Commit. For 1..4 compressions:
//   - every exported value is tied to the gadget's output variable of the same instance,
//   - the challenge that seeds the sum-check transcript is the commitment to ALL delegated values: every left input,
//     every right input and every OUTPUT (a transcript that does not depend on the outputs lets the prover pick them
//     after seeing the evaluation point, Schwartz-Zippel no longer applies),
//   - the circuit given to the GKR API is built from the (padded) inputs, in order.
//verif:unwind 4000
//verif:init github.com/consensys/gnark/std/hash
//verif:summarize gkr-poseidon2.defineCircuit verifSummary_defineCircuit
//verif:summarize gkr.API).Solve verifSummary_gkrSolve
//verif:summarize gkr.Solution).Export verifSummary_gkrExport
//verif:summarize gkr.Solution).Verify verifSummary_gkrVerify
//verif:replay interpreter

import (
	"github.com/consensys/gnark/constraint"
	"github.com/consensys/gnark/frontend"
	"github.com/consensys/gnark/std/gkr"
)

type verifMark struct{ kind, i int } // a circuit variable: (1 = left input, 2 = right input, 3 = output, 4 = exported value, 5 = commitment)

var (
	verifDefLeft, verifDefRight []frontend.Variable
	verifVerifyChallenges     []frontend.Variable
	verifVerifyCalls          int
)

func verifSummary_defineCircuit(insLeft, insRight []frontend.Variable) (*gkr.API, constraint.GkrVariable, error) {
	verifDefLeft, verifDefRight = insLeft, insRight
	return new(gkr.API), 0, nil
}
func verifSummary_gkrSolve(api *gkr.API, parentApi frontend.API) (gkr.Solution, error) {
	return gkr.Solution{}, nil
}
func verifSummary_gkrExport(s gkr.Solution, v constraint.GkrVariable) []frontend.Variable {
	res := make([]frontend.Variable, len(verifDefLeft))
	for i := range res {
		res[i] = verifMark{4, i}
	}
	return res
}
func verifSummary_gkrVerify(s gkr.Solution, hashName string, initialChallenges ...frontend.Variable) error {
	verifVerifyCalls++
	verifVerifyChallenges = initialChallenges
	return nil
}

type verifRecAPI struct {
	frontend.API
	eqs       [][2]frontend.Variable
	committed [][]frontend.Variable
}

func (a *verifRecAPI) AssertIsEqual(x, y frontend.Variable) { a.eqs = append(a.eqs, [2]frontend.Variable{x, y}) }
func (a *verifRecAPI) Commit(v ...frontend.Variable) (frontend.Variable, error) {
	a.committed = append(a.committed, append([]frontend.Variable{}, v...))
	return verifMark{5, len(a.committed) - 1}, nil
}

func verifIsMark(v frontend.Variable, kind, i int) bool {
	m, ok := v.(verifMark)
	return ok && m.kind == kind && m.i == i
}

func verifHarness_poseidon2GkrTranscriptBinding() {
	n := 1 + verifChoose(4)
	api := &verifRecAPI{}
	p := &GkrCompressions{api: api}
	for i := 0; i < n; i++ {
		p.ins1 = append(p.ins1, verifMark{1, i})
		p.ins2 = append(p.ins2, verifMark{2, i})
		p.outs = append(p.outs, verifMark{3, i})
	}
	verifVerifyCalls = 0
	err := p.finalize(api)
	verifAssert(err == nil, "finalize succeeds")
	// the circuit handed to GKR: the inputs in order, padded to a power of two
	verifAssert(len(verifDefLeft) >= n && len(verifDefLeft) == len(verifDefRight) && len(verifDefLeft)&(len(verifDefLeft)-1) == 0, "the instances are padded to a power of two")
	for i := 0; i < n && i < len(verifDefLeft); i++ {
		verifAssert(verifIsMark(verifDefLeft[i], 1, i) && verifIsMark(verifDefRight[i], 2, i), "instance i of the GKR circuit gets the inputs of compression i")
	}
	// every exported value is tied to the output variable of its instance
	for i := 0; i < n; i++ {
		found := false
		for _, e := range api.eqs {
			if (verifIsMark(e[0], 4, i) && verifIsMark(e[1], 3, i)) || (verifIsMark(e[0], 3, i) && verifIsMark(e[1], 4, i)) {
				found = true
			}
		}
		verifAssert(found, "the exported value of instance i is asserted equal to the output of compression i")
	}
	// the transcript is seeded by a commitment to every delegated value
	verifAssert(verifVerifyCalls == 1 && len(verifVerifyChallenges) >= 1, "the GKR proof is verified once, with an initial challenge")
	if len(verifVerifyChallenges) >= 1 {
		m, ok := verifVerifyChallenges[0].(verifMark)
		verifAssert(ok && m.kind == 5, "the initial challenge is a commitment")
		if ok && m.kind == 5 {
			vals := api.committed[m.i]
			for kind := 1; kind <= 3; kind++ {
				for i := 0; i < n; i++ {
					found := false
					for _, v := range vals {
						if verifIsMark(v, kind, i) {
							found = true
						}
					}
					verifAssert(found, "the commitment that seeds the transcript covers every left input, right input and output")
				}
			}
		}
	}
	verifReach("transcript-binding")
}
