package PKGNAME

// C06 harness (what the sparse solver hands to PLONK): evaluateLROSmallDomain lays the solution
// out as the three columns L, R, O over the small domain. For systems with 0..2 public inputs,
// 0..3 generic gates with symbolic wire ids (a hint instruction may sit between them) and a
// symbolic solution vector of 5 wires: the columns have the domain's size (next power of two of
// #public + #constraints) with room for 4 blinding entries, the public inputs sit in the leading
// rows of L, every position of a gate holds the value of the wire the gate names there (hence
// equal values at all positions of the same wire), and padding rows hold wire 0.
//verif:unwind 600

import (
	"FRPKG"
	"github.com/consensys/gnark/constraint"
)

const verifNbWires = 5

func verifHarness_evaluateLRO() {
	nbPublic := verifChoose(3)
	nbGates := verifChoose(4)
	hintAfter := verifChoose(nbGates + 2) - 1 // -1: no hint instruction; k: after k gates
	sys := &system{}
	sys.Type = constraint.SystemSparseR1CS
	sys.Public = make([]string, nbPublic)
	sys.Blueprints = []constraint.Blueprint{&constraint.BlueprintGenericSparseR1C[constraint.U64]{}, &constraint.BlueprintGenericHint{}}
	xs := make([][3]uint32, nbGates)
	for j := 0; j <= nbGates; j++ {
		if j == hintAfter {
			start := uint64(len(sys.CallData))
			sys.CallData = append(sys.CallData, 7, 99, 1, 1, 1, 2, 4, 5)
			sys.CallData[start] = uint32(uint64(len(sys.CallData)) - start)
			sys.Instructions = append(sys.Instructions, constraint.PackedInstruction{BlueprintID: 1, StartCallData: start})
		}
		if j == nbGates {
			break
		}
		xa, xb, xc := verifNondetU32("xa"), verifNondetU32("xb"), verifNondetU32("xc")
		verifAssume(xa < verifNbWires)
		verifAssume(xb < verifNbWires)
		verifAssume(xc < verifNbWires)
		xs[j] = [3]uint32{xa, xb, xc}
		start := uint64(len(sys.CallData))
		sys.CallData = append(sys.CallData, xa, xb, xc, 1, 1, 1, 0, 0, 0)
		sys.Instructions = append(sys.Instructions, constraint.PackedInstruction{BlueprintID: 0, StartCallData: start, ConstraintOffset: uint32(j)})
	}
	sys.NbConstraints = nbGates
	solution := make([]fr.Element, verifNbWires)
	for i := range solution {
		solution[i] = verifNondetFr("w")
	}
	l, r, o := evaluateLROSmallDomain(sys, solution)
	size := 1
	for size < nbPublic+nbGates {
		size *= 2
	}
	verifAssert(len(l) == size && len(r) == size && len(o) == size, "the columns have the size of the small domain")
	verifAssert(cap(l) >= size+4 && cap(r) >= size+4 && cap(o) >= size+4, "room is left for the blinding entries")
	if len(l) != size || len(r) != size || len(o) != size {
		return
	}
	for i := 0; i < nbPublic; i++ {
		verifAssert(l[i].Equal(&solution[i]), "the public inputs sit in the leading rows of L")
		verifAssert(r[i].Equal(&solution[0]) && o[i].Equal(&solution[0]), "R and O of a public-input row hold wire 0")
	}
	for j := 0; j < nbGates; j++ {
		row := nbPublic + j
		verifAssert(l[row].Equal(&solution[xs[j][0]]), "L of a gate row holds the value of the gate's xa wire")
		verifAssert(r[row].Equal(&solution[xs[j][1]]), "R of a gate row holds the value of the gate's xb wire")
		verifAssert(o[row].Equal(&solution[xs[j][2]]), "O of a gate row holds the value of the gate's xc wire")
	}
	for row := nbPublic + nbGates; row < size; row++ {
		verifAssert(l[row].Equal(&solution[0]) && r[row].Equal(&solution[0]) && o[row].Equal(&solution[0]), "padding rows hold wire 0")
	}
	verifReach("lro")
}
