package PKGNAME

// C19 harness (dependency bookkeeping behind GkrInfo.Compile): TopologicalSort on every
// dependency structure with 1..4 wires, 0..2 (symbolic, possibly repeated) inputs per wire,
// assumed acyclic (transitive closure computed in the harness): the result is a permutation in
// which every wire comes after all of its inputs, and uniqueOutputs lists each consumer once.
// InvertPermutation really inverts.
//verif:unwind 3000
//verif:symindex 0

func verifHarness_topologicalSort() {
	n := 1 + verifChoose(4)
	inputs := make([][]int, n)
	adj := make([][]bool, n)
	for i := range adj {
		adj[i] = make([]bool, n)
	}
	for i := 0; i < n; i++ {
		m := verifChoose(3)
		inputs[i] = make([]int, m)
		for k := 0; k < m; k++ {
			v := verifNondetInt("input")
			verifAssume(verifAnd(v >= 0, v < n))
			inputs[i][k] = v
			for j := 0; j < n; j++ {
				adj[i][j] = verifOr(adj[i][j], v == j)
			}
		}
	}
	// acyclic: no wire reaches itself
	reach := make([][]bool, n)
	for i := range reach {
		reach[i] = append([]bool{}, adj[i]...)
	}
	for k := 0; k < n; k++ {
		for i := 0; i < n; i++ {
			for j := 0; j < n; j++ {
				reach[i][j] = verifOr(reach[i][j], verifAnd(reach[i][k], reach[k][j]))
			}
		}
	}
	for i := 0; i < n; i++ {
		verifAssume(!reach[i][i])
	}
	sorted, uniq := TopologicalSort(inputs)
	verifAssert(len(sorted) == n, "every wire is sorted")
	pos := make([]int, n)
	for i := range pos {
		pos[i] = -1
	}
	for p, w := range sorted {
		verifAssert(w >= 0 && w < n, "sorted entries are wires")
		if w >= 0 && w < n {
			verifAssert(pos[w] == -1, "no wire appears twice")
			pos[w] = p
		}
	}
	for i := 0; i < n; i++ {
		for j := 0; j < n; j++ {
			verifAssert(verifImplies(adj[i][j], pos[j] < pos[i]), "every wire comes after each of its inputs")
		}
	}
	for j := 0; j < n; j++ {
		for a := 0; a < len(uniq[j]); a++ {
			verifAssert(adj[uniq[j][a]][j], "uniqueOutputs only lists consumers")
			for b := 0; b < a; b++ {
				verifAssert(uniq[j][a] != uniq[j][b], "uniqueOutputs lists each consumer once")
			}
		}
	}
	inv := InvertPermutation(sorted)
	for i := range sorted {
		verifAssert(inv[sorted[i]] == i, "InvertPermutation inverts")
	}
	verifReach("topsort")
}
