package PKGNAME

// C11 harness: state that must not survive a compilation. The deferred multiplication checks of
// the emulated field cache the evaluation of every element they refer to ON the element itself
// (which may live in the user's circuit value, e.g. a variable modulus); cleanEvaluations() is
// what makes a second compilation of the same circuit value start from a clean slate. For a
// check object whose elements carry an arbitrary (symbolic) cache state, with or without a
// custom modulus and with 0..2 multivariate inputs, after cleanEvaluations() no element
// reachable from the check is still marked evaluated.
//verif:unwind 300

import "github.com/consensys/gnark/frontend"

func verifElem() *Element[BN254Fp] {
	e := &Element[BN254Fp]{Limbs: []frontend.Variable{1}}
	e.isEvaluated = verifNondetBool("isEvaluated")
	e.evaluation = 7
	return e
}

func verifClean(e *Element[BN254Fp]) bool {
	if e == nil {
		return true
	}
	v, ok := e.evaluation.(int)
	return verifAnd(!e.isEvaluated, ok && v == 0)
}

func verifHarness_mulCheckClean() {
	mc := &mulCheck[BN254Fp]{a: verifElem(), b: verifElem(), r: verifElem(), k: verifElem(), c: verifElem()}
	if verifChoose(2) == 1 {
		mc.p = verifElem()
	}
	mc.cleanEvaluations()
	for _, e := range []*Element[BN254Fp]{mc.a, mc.b, mc.r, mc.k, mc.c, mc.p} {
		verifAssert(verifClean(e), "no cached evaluation survives cleanEvaluations (mulCheck)")
	}
	verifReach("mulCheck")
}

func verifHarness_mvCheckClean() {
	mc := &mvCheck[BN254Fp]{r: verifElem(), k: verifElem(), c: verifElem()}
	n := verifChoose(3)
	for i := 0; i < n; i++ {
		mc.vals = append(mc.vals, verifElem())
	}
	mc.cleanEvaluations()
	for _, e := range append([]*Element[BN254Fp]{mc.r, mc.k, mc.c}, mc.vals...) {
		verifAssert(verifClean(e), "no cached evaluation survives cleanEvaluations (mvCheck)")
	}
	verifReach("mvCheck")
}
