package PKGNAME

// C09 harness (witness stream accounting): the real witness.ReadFrom / WriteTo on a stream that holds MORE than the
// witness (a proof or another witness may follow in the same file or connection). The 8-byte header is decoded by the
// real code; gnark-crypto's field-vector codec is the abstract codec in its byte-moving reading (directive
// `codec consumes`: a 4-byte length and n fixed-size elements go through the caller's reader / writer with
// io.ReadFull semantics, n = 0..3 chosen freely on decode). Whenever ReadFrom succeeds, the byte count it reports is
// exactly what it took from the caller's reader - nothing behind the witness is consumed - and WriteTo reports exactly
// what it handed to the caller's writer; reading back what was written consumes exactly the reported bytes.
//verif:unwind 6000
//verif:init io bufio github.com/consensys/gnark/backend/witness
//verif:codec consumes
//verif:replay interpreter

import (
	"io"

	fr_bn254 "github.com/consensys/gnark-crypto/ecc/bn254/fr"
)

type verifCountingReader struct {
	data []byte
	pos  int
}

func (r *verifCountingReader) Read(p []byte) (int, error) {
	if r.pos >= len(r.data) {
		return 0, io.EOF
	}
	n := copy(p, r.data[r.pos:])
	r.pos += n
	return n, nil
}

type verifCountingWriter struct{ n int }

func (w *verifCountingWriter) Write(p []byte) (int, error) { w.n += len(p); return len(p), nil }

func verifHarness_witnessReadAccounting() {
	trailer := []int{0, 1, 40, 200}[verifChoose(4)]
	data := make([]byte, 8+4+3*32+trailer)
	for i := 0; i < 8; i++ {
		data[i] = verifNondetByte("hdr")
	}
	rd := &verifCountingReader{data: data}
	w := &witness{vector: fr_bn254.Vector{}}
	n, err := w.ReadFrom(rd)
	if err != nil {
		verifReach("read-error")
		return
	}
	verifAssert(int(n) == rd.pos, "ReadFrom reports exactly the bytes it consumed from the caller's reader")
	verifAssert(int(n) == 8+4+32*len(w.vector.(fr_bn254.Vector)), "the bytes consumed are the header and the vector's encoding")
	verifReach("read-ok")
}

func verifHarness_witnessWriteAccounting() {
	k := verifChoose(3)
	w := &witness{vector: make(fr_bn254.Vector, k), nbPublic: uint32(k)}
	cw := &verifCountingWriter{}
	n, err := w.WriteTo(cw)
	if err != nil {
		verifReach("write-error")
		return
	}
	verifAssert(int(n) == cw.n, "WriteTo reports exactly the bytes it handed to the caller's writer")
	verifAssert(cw.n == 8+4+32*k, "the bytes written are the header and the vector's encoding")
	verifReach("write-ok")
}
