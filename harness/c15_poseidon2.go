package PKGNAME

// C15 harness (Poseidon2): the in-circuit permutation against gnark-crypto's native permutation,
// as symbolic field computations. Widths 2 and 3, (full, partial) rounds (6, 26) and (8, 4):
// the gadget (run against the field-valued API stand-in, round keys converted from the native
// parameters exactly as NewPoseidon2FromParameters does) and the native permutation (which derives
// its round keys again from the same seed: hashes are deterministic opaque functions) map a
// symbolic state to the SAME field expressions: same external / internal matrices, S-box degree,
// full/partial round structure, round-key placement. Also Compress (width 2) = permutation's
// right lane + right input.
//verif:unwind 4000
//verif:init NATIVEPKG

import (
	"math/big"

	"FRPKG"
	native "NATIVEPKG"
	"github.com/consensys/gnark/frontend"
)

func verifHarness_poseidon2MatchesNative() {
	w := 2 + verifChoose(2)
	rf, rp := 6, 26
	if verifChoose(2) == 1 {
		rf, rp = 8, 4
	}
	np := native.NewParameters(w, rf, rp)
	keys := make([][]big.Int, len(np.RoundKeys))
	for i := range keys {
		keys[i] = make([]big.Int, len(np.RoundKeys[i]))
		for j := range keys[i] {
			np.RoundKeys[i][j].BigInt(&keys[i][j])
		}
	}
	api := &verifFieldEng{}
	g := &Permutation{api: api, params: parameters{width: w, nbFullRounds: rf, nbPartialRounds: rp, degreeSBox: native.DegreeSBox(), roundKeys: keys}}
	state := make([]fr.Element, w)
	in := make([]frontend.Variable, w)
	for i := range state {
		state[i] = verifNondetFr("s")
		in[i] = verifFV{state[i]}
	}
	err := g.Permutation(in)
	verifAssert(err == nil, "the gadget accepts a state of its width")
	nat := native.NewPermutation(w, rf, rp)
	ns := append([]fr.Element{}, state...)
	err = nat.Permutation(ns)
	verifAssert(err == nil, "the native permutation accepts a state of its width")
	for i := 0; i < w; i++ {
		got := verifFE(in[i])
		verifAssert(got.Equal(&ns[i]), "the in-circuit Poseidon2 permutation equals the native one, lane by lane")
	}
	if w == 2 {
		c := verifFE(g.Compress(verifFV{state[0]}, verifFV{state[1]}))
		var want fr.Element
		want.Add(&ns[1], &state[1])
		verifAssert(c.Equal(&want), "Compress is the right lane of the permutation plus the right input")
	}
	verifReach("poseidon2")
}
