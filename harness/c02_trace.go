package PKGNAME

// C02 harness (key structure, continued): NewTrace, from which Setup commits the verifying key.
// Systems with 0..2 public inputs, 0..2 generic gates (symbolic wire ids and symbolic coefficient
// ids into a table of symbolic coefficient values), an optional hint instruction in between,
// 0..2 commitments, each with a symbolic committed-constraint index, domain of size 4 with symbolic
// generator w and coset shift u (algebra model):
//   * selector columns: public rows are (ql,qr,qm,qo,qk) = (-1,0,0,0,0), gate row j holds exactly
//     the gate's coefficients, padding rows are 0
//   * Qcp[i] is the indicator of the committed constraints (shifted by the public rows)
//   * S1,S2,S3 are the support u^c w^r read through the wiring permutation S (whose cycle
//     structure is the subject of c02_perm.go)
//verif:unwind 2000

import (
	"github.com/consensys/gnark-crypto/ecc/CURVE/fr"
	"github.com/consensys/gnark-crypto/ecc/CURVE/fr/fft"
	"github.com/consensys/gnark/constraint"
	cs "github.com/consensys/gnark/constraint/CURVE"
)

const verifTSize = 4
const verifTNbVars = 4
const verifTNbCoeffs = 4

func verifHarness_newTrace() {
	nbPublic := verifChoose(3)
	nbGates := verifChoose(3)
	hintAfter := verifChoose(nbGates+2) - 1
	nbCommit := verifChoose(3)
	spr := &cs.SparseR1CS{}
	spr.Type = constraint.SystemSparseR1CS
	spr.Public = make([]string, nbPublic)
	spr.Secret = make([]string, verifTNbVars-nbPublic)
	spr.Blueprints = []constraint.Blueprint{&constraint.BlueprintGenericSparseR1C[constraint.U64]{}, &constraint.BlueprintGenericHint{}}
	spr.Coefficients = make([]fr.Element, verifTNbCoeffs)
	for i := range spr.Coefficients {
		spr.Coefficients[i] = verifNondetFr("coeff")
	}
	type gate struct{ x, q [5]uint32 }
	gates := make([]gate, nbGates)
	for j := 0; j <= nbGates; j++ {
		if j == hintAfter {
			start := uint64(len(spr.CallData))
			spr.CallData = append(spr.CallData, 8, 99, 1, 1, 1, 2, 4, 5)
			spr.Instructions = append(spr.Instructions, constraint.PackedInstruction{BlueprintID: 1, StartCallData: start})
		}
		if j == nbGates {
			break
		}
		var g gate
		for k := 0; k < 3; k++ {
			g.x[k] = verifNondetU32("x")
			verifAssume(g.x[k] < verifTNbVars)
		}
		for k := 0; k < 5; k++ {
			g.q[k] = verifNondetU32("q")
			verifAssume(g.q[k] < verifTNbCoeffs)
		}
		gates[j] = g
		start := uint64(len(spr.CallData))
		spr.CallData = append(spr.CallData, g.x[0], g.x[1], g.x[2], g.q[0], g.q[1], g.q[2], g.q[3], g.q[4], 0)
		spr.Instructions = append(spr.Instructions, constraint.PackedInstruction{BlueprintID: 0, StartCallData: start, ConstraintOffset: uint32(j)})
	}
	spr.NbConstraints = nbGates
	committed := make([]int, nbCommit)
	info := constraint.PlonkCommitments{}
	for i := 0; i < nbCommit; i++ {
		if nbGates == 0 {
			verifAssume(false)
		}
		committed[i] = verifNondetInt("committed")
		verifAssume(verifAnd(committed[i] >= 0, committed[i] < nbGates))
		info = append(info, constraint.PlonkCommitment{Committed: []int{committed[i]}, CommitmentIndex: nbGates - 1})
	}
	spr.CommitmentInfo = info
	domain := &fft.Domain{Cardinality: verifTSize}
	domain.Generator = verifNondetFr("w")
	domain.FrMultiplicativeGen = verifNondetFr("u")

	trace := NewTrace(spr, domain)

	var zero, minusOne fr.Element
	minusOne.SetOne().Neg(&minusOne)
	cols := [][]fr.Element{trace.Ql.Coefficients(), trace.Qr.Coefficients(), trace.Qo.Coefficients(), trace.Qm.Coefficients(), trace.Qk.Coefficients()}
	for _, c := range cols {
		verifAssert(len(c) == verifTSize, "every selector column has the domain's size")
	}
	for i := 0; i < nbPublic; i++ {
		verifAssert(cols[0][i].Equal(&minusOne), "public-input rows have ql = -1")
		for c := 1; c < 5; c++ {
			verifAssert(cols[c][i].Equal(&zero), "public-input rows have qr = qo = qm = qk = 0")
		}
	}
	for j := 0; j < nbGates; j++ {
		row := nbPublic + j
		for c := 0; c < 5; c++ {
			verifAssert(cols[c][row].Equal(&spr.Coefficients[gates[j].q[c]]), "a gate row holds exactly the gate's coefficients (ql, qr, qo, qm, qk)")
		}
	}
	for row := nbPublic + nbGates; row < verifTSize; row++ {
		for c := 0; c < 5; c++ {
			verifAssert(cols[c][row].Equal(&zero), "padding rows are zero in every selector")
		}
	}
	verifAssert(len(trace.Qcp) == nbCommit, "one Qcp column per commitment")
	for i := 0; i < nbCommit && i < len(trace.Qcp); i++ {
		q := trace.Qcp[i].Coefficients()
		var one fr.Element
		one.SetOne()
		for row := 0; row < verifTSize; row++ {
			if row == nbPublic+committed[i] {
				verifAssert(q[row].Equal(&one), "Qcp_i is 1 on the row of a constraint committed by commitment i")
			} else {
				verifAssert(q[row].Equal(&zero), "Qcp_i is 0 elsewhere (also on rows committed by other commitments)")
			}
		}
	}
	// support read through S
	var support [3 * verifTSize]fr.Element
	for c := 0; c < 3; c++ {
		for r := 0; r < verifTSize; r++ {
			e := &support[c*verifTSize+r]
			e.SetOne()
			for k := 0; k < c; k++ {
				e.Mul(e, &domain.FrMultiplicativeGen)
			}
			for k := 0; k < r; k++ {
				e.Mul(e, &domain.Generator)
			}
		}
	}
	ss := [][]fr.Element{trace.S1.Coefficients(), trace.S2.Coefficients(), trace.S3.Coefficients()}
	verifAssert(len(trace.S) == 3*verifTSize, "the permutation acts on 3*size positions")
	for c := 0; c < 3; c++ {
		verifAssert(len(ss[c]) == verifTSize, "every permutation column has the domain's size")
		for r := 0; r < verifTSize && r < len(ss[c]); r++ {
			k := trace.S[c*verifTSize+r]
			verifAssert(k >= 0 && k < 3*verifTSize, "S maps into the support")
			if k >= 0 && k < 3*verifTSize {
				verifAssert(ss[c][r].Equal(&support[k]), "S1,S2,S3 are the support u^c w^r read through the wiring permutation")
			}
		}
	}
	verifReach("trace")
}
