package PKGNAME

// C12 harness, linear operations and selections (see c12_emulated.go for the stand-in): Add, Sub, Neg, Sum, MulConst,
// Select, Lookup2, Mux on elements as the library produces them (0..3 limbs, tracked overflow 0 / 1 / maximal,
// constants on fewer limbs). Reduce - called when an operand's tracked overflow leaves no room - is replaced by its
// CONTRACT here (a fresh element in normal form congruent to its argument; its own soundness is the subject of
// verifHarness_emulatedMul). The result, and the result of adding it to itself afterwards (a later operation must cope
// with the overflow the result carries), are congruent to the integer results modulo p; the stand-in's arithmetic
// wraps modulo q, so a limb that exceeds the native field is seen.
//verif:unwind 6000
//verif:replay interpreter
//verif:summarize verifEmParams]).Reduce[github.com/consensys/gnark/std/math/emulated.verifEmParams] verifSum_emReduce

import (
	"math/big"
)

func verifSum_emReduce(f *Field[verifEmParams], a *Element[verifEmParams]) *Element[verifEmParams] {
	if a.overflow == 0 {
		return a
	}
	r := verifEmElement(f, EMNBLIMBS, 0)
	verifAssume(verifEmCong(verifEmVal(r), verifEmVal(a)))
	return r
}

// ---------------------------------------------------------------------------------------------------
// linear operations and selections: no hints unless an operand has to be reduced first

func verifHarness_emulatedLinear() {
	adv := true // the linear operations call hints only to reduce an operand first: the adversarial reading covers the honest one
	f, e := verifMkEmField(adv)
	op := LINOPSEL
	a := verifEmElement(f, verifChoose(4), verifEmOverflow())
	b := verifEmElement(f, 2+verifChoose(2), verifEmOverflow())
	av, bv := verifEmVal(a), verifEmVal(b)
	var r *Element[verifEmParams]
	var want uint32 // value the result must be congruent to (kept non-negative by adding a multiple of p)
	const bigP = verifP << 16
	switch op {
	case 0:
		r = f.Add(a, b)
		want = av + bv
	case 1:
		r = f.Sub(a, b)
		want = av + bigP - bv
	case 2:
		r = f.Neg(a)
		want = bigP - av
	case 3:
		c := verifEmElement(f, 2, uint(verifChoose(2)))
		r = f.Sum(a, b, c, a, b)
		want = 2*av + 2*bv + verifEmVal(c)
	case 4:
		consts := []int64{0, 1, 2, 3, 5, 8}
		k := consts[verifChoose(len(consts))]
		r = f.MulConst(a, big.NewInt(k))
		want = av * uint32(k)
	case 5:
		s := verifNondetU32("selector")
		verifAssume(s < 2)
		r = f.Select(verifN{s}, a, b)
		want = s*av + (1-s)*bv
	case 6:
		c := verifEmElement(f, verifChoose(3), 0)
		d := verifEmElement(f, 2, 1)
		s0, s1 := verifNondetU32("b0"), verifNondetU32("b1")
		verifAssume(s0 < 2)
		verifAssume(s1 < 2)
		r = f.Lookup2(verifN{s0}, verifN{s1}, a, b, c, d)
		want = (1-s1)*((1-s0)*av+s0*bv) + s1*((1-s0)*verifEmVal(c)+s0*verifEmVal(d))
	case 7:
		c := verifEmElement(f, verifChoose(3), 0)
		s := verifNondetU32("sel")
		verifAssume(s < 3)
		r = f.Mux(verifN{s}, a, b, c)
		want = verifEmVal(c)
		if s == 0 {
			want = av
		} else if s == 1 {
			want = bv
		}
	}
	_ = e
	for i := range r.Limbs {
		verifAssert(r.Limbs[i] != nil, "every limb of the result is set")
	}
	verifAssert(verifEmWellFormed(r), "every limb of the result is below 2^(w + tracked overflow)")
	verifAssert(verifEmCong(verifEmVal(r), want), "the result is congruent to the integer result modulo the emulated modulus")
	r2 := f.Add(r, r)
	verifAssert(verifEmWellFormed(r2), "every limb of (result + result) is below 2^(w + tracked overflow)")
	verifAssert(verifEmCong(verifEmVal(r2), 2*want), "adding the result to itself afterwards gives twice the integer result modulo the emulated modulus")
	verifReach("emulated-linear")
}

