package PKGNAME

// C12 harness, linear operations and selections (see c12_emulated.go for the stand-in): Add, Sub, Neg, Sum, MulConst,
// Select, Lookup2, Mux on elements as the library produces them (0..3 limbs, tracked overflow 0 / 1 / maximal,
// constants on fewer limbs). Reduce - called when an operand's tracked overflow leaves no room - is replaced by its
// CONTRACT here (a fresh element in normal form congruent to its argument; its own soundness is the subject of
// verifHarness_emulatedMul). The result, and the result of adding it to itself afterwards (a later operation must cope
// with the overflow the result carries), are congruent to the integer results modulo p; the stand-in's arithmetic is
// exact here and every native addition / subtraction / multiplication carries the obligation that it stays inside
// [0, q): what the overflow bookkeeping exists for.
//verif:unwind 6000
//verif:replay interpreter
//verif:summarize verifEmParams]).Reduce[github.com/consensys/gnark/std/math/emulated.verifEmParams] verifSum_emReduce
//verif:summarize selector.Mux verifSum_selMux

import (
	"math/big"

	"github.com/consensys/gnark/frontend"
)

// Reduce by contract; the pairs (argument, result) are recorded: a reduced element is congruent to its argument, so an
// expected value may be computed from the reduced copy instead (congruence is transitive) - which keeps the solver's
// queries free of the "x = y mod p implies x + z = y + z mod p" step it does not decide at these sizes
var verifReducedFrom, verifReducedTo []*Element[verifEmParams]

func verifEmValR(e *Element[verifEmParams]) uint32 {
	for i := len(verifReducedFrom) - 1; i >= 0; i-- {
		if verifReducedFrom[i] == e {
			return verifEmVal(verifReducedTo[i])
		}
	}
	return verifEmVal(e)
}

// true when every recorded reduction was applied to one of the given elements (or to the reduced copy of one)
func verifOnlyReduced(ops ...*Element[verifEmParams]) bool {
	for i, from := range verifReducedFrom {
		ok := false
		for _, o := range ops {
			if o == from {
				ok = true
			}
		}
		for j := 0; j < i; j++ {
			if verifReducedTo[j] == from {
				ok = true
			}
		}
		if !ok {
			return false
		}
	}
	return true
}

// selector.Mux is C14's subject: here it is its meaning (the input at index sel)
func verifSum_selMux(api frontend.API, sel frontend.Variable, inputs ...frontend.Variable) frontend.Variable {
	s := verifNU(sel)
	for i := range inputs {
		if s == uint32(i) {
			return verifN{verifNU(inputs[i])}
		}
	}
	panic("Mux selector out of range")
}

func verifSum_emReduce(f *Field[verifEmParams], a *Element[verifEmParams]) *Element[verifEmParams] {
	if a.overflow == 0 {
		return a
	}
	r := verifEmElement(f, EMNBLIMBS, 0)
	verifAssume(verifEmCong(verifEmVal(r), verifEmVal(a)))
	verifReducedFrom, verifReducedTo = append(verifReducedFrom, a), append(verifReducedTo, r)
	return r
}

// ---------------------------------------------------------------------------------------------------
// linear operations and selections: no hints unless an operand has to be reduced first

func verifHarness_emulatedLinear() {
	adv := true // the linear operations call hints only to reduce an operand first: the adversarial reading covers the honest one
	f, e := verifMkEmField(adv)
	e.exact = true // no hints on these paths (Reduce is its contract): integer arithmetic, with the obligation that the native field is never exceeded
	op := LINOPSEL
	a := verifEmElement(f, verifChoose(4), verifEmOverflow())
	b := verifEmElement(f, 2+verifChoose(2), verifEmOverflow())
	var r, c, d *Element[verifEmParams]
	var s0, s1, k uint32
	switch op {
	case 0:
		r = f.Add(a, b)
	case 1:
		r = f.Sub(a, b)
	case 2:
		r = f.Neg(a)
	case 3:
		c = verifEmElement(f, 2, uint(verifChoose(2)))
		r = f.Sum(a, b, c, a, b)
	case 4:
		consts := []int64{0, 1, 2, 3, 5, 8}
		kc := consts[verifChoose(len(consts))]
		k = uint32(kc)
		r = f.MulConst(a, big.NewInt(kc))
	case 5:
		s0 = verifNondetU32("selector")
		verifAssume(s0 < 2)
		r = f.Select(verifN{s0}, a, b)
	case 6:
		c = verifEmElement(f, verifChoose(3), 0)
		d = verifEmElement(f, 2, 1)
		s0, s1 = verifNondetU32("b0"), verifNondetU32("b1")
		verifAssume(s0 < 2)
		verifAssume(s1 < 2)
		r = f.Lookup2(verifN{s0}, verifN{s1}, a, b, c, d)
	case 7:
		c = verifEmElement(f, verifChoose(3), 0)
		s0 = verifNondetU32("sel")
		verifAssume(s0 < 3)
		r = f.Mux(verifN{s0}, a, b, c)
	}
	// expected integer value, from the operands as the operation saw them (an operand reduced first is replaced by its
	// congruent reduced copy); kept non-negative by adding a multiple of p
	av, bv := verifEmValR(a), verifEmValR(b)
	var want uint32
	const bigP = verifP << 16
	switch op {
	case 0:
		want = av + bv
	case 1:
		want = av + bigP - bv
	case 2:
		want = bigP - av
	case 3:
		want = 2*av + 2*bv + verifEmValR(c)
	case 4:
		want = av * k
	case 5:
		want = verifIteU32(s0 == 1, av, bv)
	case 6:
		want = verifIteU32(s1 == 1, verifIteU32(s0 == 1, verifEmValR(d), verifEmValR(c)), verifIteU32(s0 == 1, bv, av))
	case 7:
		want = verifIteU32(s0 == 0, av, verifIteU32(s0 == 1, bv, verifEmValR(c)))
	}
	_ = e
	for i := range r.Limbs {
		verifAssert(r.Limbs[i] != nil, "every limb of the result is set")
	}
	verifAssert(verifEmWellFormed(r), "every limb of the result is below 2^(w + tracked overflow)")
	// when the operation reduced an INTERMEDIATE value (only Sum's one-by-one fallback does), the expected value cannot be
	// followed through the reduction's contract without the step "x = y mod p => x + z = y + z mod p", which the solver does
	// not decide at these sizes: the congruence is then not asserted (the other obligations are) and the path is labelled
	if verifOnlyReduced(a, b, c, d) {
		verifAssert(verifEmCong(verifEmVal(r), want), "the result is congruent to the integer result modulo the emulated modulus")
	} else {
		verifReach("intermediate-reduction-not-followed")
	}
	nred := len(verifReducedFrom)
	r2 := f.Add(r, r)
	verifAssert(verifEmWellFormed(r2), "every limb of (result + result) is below 2^(w + tracked overflow)")
	onlyR := true
	for _, from := range verifReducedFrom[nred:] {
		if from != r {
			onlyR = false
		}
	}
	if onlyR {
		verifAssert(verifEmCong(verifEmVal(r2), 2*verifEmValR(r)), "adding the result to itself afterwards gives twice the result modulo the emulated modulus")
	}
	verifReach("emulated-linear")
}

