package PKGNAME

// C03 / C20 harness (PLONK quotient shards): the prover cuts the quotient h (3(n+2) coefficients) into h1, h2, h3 and,
// under backend.WithStatisticalZeroKnowledge, adds randomizers that cancel between neighbouring shards. The verifier
// recombines [h1] + zeta^(n+2) [h2] + zeta^(2(n+2)) [h3]: for n = 4, symbolic coefficients of h and symbolic
// randomizers, the three shards returned by the real instance.h1 / h2 / h3 recombine to h COEFFICIENT BY COEFFICIENT,
// with and without the option (completeness under every option combination); with the option the first two shards
// carry the randomizer as their top coefficient (every shard is blinded) and h itself is left untouched.
//verif:unwind 400
//verif:replay interpreter

import (
	"github.com/consensys/gnark/backend"

	"CURVEPKG/fr"
	"CURVEPKG/fr/fft"
	"CURVEPKG/fr/iop"
)

func verifHarness_quotientShards() {
	const n = 4
	szk := verifChoose(2) == 1
	hc := make([]fr.Element, 3*(n+2))
	for i := range hc {
		hc[i] = verifNondetFr("h")
	}
	orig := append([]fr.Element{}, hc...)
	s := &instance{domain0: &fft.Domain{Cardinality: n}}
	s.h = iop.NewPolynomial(&hc, iop.Form{Basis: iop.Canonical, Layout: iop.Regular})
	s.opt = &backend.ProverConfig{StatisticalZK: szk}
	s.quotientShardsRandomizers = [2]fr.Element{verifNondetFr("b1"), verifNondetFr("b2")}
	h1, h2, h3 := s.h1(), s.h2(), s.h3()
	// recombination: coefficient k of h1 + X^(n+2) h2 + X^(2(n+2)) h3
	rec := make([]fr.Element, 3*(n+2)+2)
	for i := range h1 {
		rec[i].Add(&rec[i], &h1[i])
	}
	for i := range h2 {
		rec[n+2+i].Add(&rec[n+2+i], &h2[i])
	}
	for i := range h3 {
		rec[2*(n+2)+i].Add(&rec[2*(n+2)+i], &h3[i])
	}
	for k := range rec {
		var want fr.Element
		if k < len(orig) {
			want = orig[k]
		}
		verifAssert(rec[k].Equal(&want), "the three quotient shards recombine to the quotient, coefficient by coefficient")
	}
	for k := range orig {
		verifAssert(s.h.Coefficients()[k].Equal(&orig[k]), "cutting the shards leaves the quotient itself untouched")
	}
	if szk {
		verifAssert(len(h1) == n+3 && len(h2) == n+3, "with statistical zero knowledge the first two shards have one more coefficient")
		if len(h1) == n+3 && len(h2) == n+3 {
			verifAssert(h1[n+2].Equal(&s.quotientShardsRandomizers[0]) && h2[n+2].Equal(&s.quotientShardsRandomizers[1]), "and it is the shard's randomizer")
		}
	}
	verifReach("quotient-shards")
}
