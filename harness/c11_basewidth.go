package PKGNAME

// C11 harness (no state survives a compilation in the range checker's choice of limb width): getOptimalBasewidth is
// called for one collection of range checks and then for ANOTHER collection with the same number of checks and the same
// total width but another distribution (6 x 6 ordered pairs of distributions of 64 bits over 4 checks, both frontend
// types); the second answer must be the optimum of the real cost function for the second collection - what a fresh
// process would compute - whatever was asked before (added after seed C11-3; the scan of writes to package-level
// variables in the compile-path packages reports the site as well).
//verif:unwind 4000
//verif:replay interpreter

import (
	"github.com/consensys/gnark/frontend"
	"github.com/consensys/gnark/internal/frontendtype"
)

type verifTypedAPI struct {
	frontend.API
	t frontendtype.Type
}

func (a verifTypedAPI) FrontendType() frontendtype.Type { return a.t }

func verifWidths(k int) []checkedVariable {
	table := [][]int{{16, 16, 16, 16}, {8, 8, 24, 24}, {1, 1, 31, 31}, {4, 20, 20, 20}, {2, 2, 30, 30}, {32, 16, 8, 8}}
	var r []checkedVariable
	for _, b := range table[k] {
		r = append(r, checkedVariable{bits: b})
	}
	return r
}

func verifHarness_baseWidthIndependentOfHistory() {
	scs := verifChoose(2) == 1
	i, j := verifChoose(6), verifChoose(6)
	var api frontend.API = verifTypedAPI{t: frontendtype.R1CS}
	cost := nbR1CSConstraints
	if scs {
		api = verifTypedAPI{t: frontendtype.SCS}
		cost = nbPLONKConstraints
	}
	first := &commitChecker{collected: verifWidths(i)}
	second := &commitChecker{collected: verifWidths(j)}
	_ = first.getOptimalBasewidth(api)
	got := second.getOptimalBasewidth(api)
	best, bestW := -1, 0
	for w := 2; w < 18; w++ {
		if c := cost(w, second.collected); best < 0 || c < best {
			best, bestW = c, w
		}
	}
	verifAssert(got == bestW, "the limb width chosen for a collection of range checks is its own optimum, whatever was compiled before")
	verifReach("base-width")
}
