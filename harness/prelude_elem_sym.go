package PKGNAME

// field operations on the element-as-words type ELEMTYPE (constraint.U32 / U64), symbolic flavour

func verifNondetElem(name string) ELEMTYPE { var e ELEMTYPE; return e }
func verifFAdd(a, b ELEMTYPE) ELEMTYPE      { return a }
func verifFSub(a, b ELEMTYPE) ELEMTYPE      { return a }
func verifFMul(a, b ELEMTYPE) ELEMTYPE      { return a }
func verifFNeg(a ELEMTYPE) ELEMTYPE         { return a }
func verifFInv(a ELEMTYPE) ELEMTYPE         { return a }
func verifFConst(v int) ELEMTYPE            { var e ELEMTYPE; return e }
func verifFEq(a, b ELEMTYPE) bool           { return false }
func verifFIsZero(a ELEMTYPE) bool          { return false }
func verifFToU64(a ELEMTYPE) (uint64, bool)    { return 0, false }
