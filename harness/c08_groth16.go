package PKGNAME

// C08 / C01 harness: Groth16 Verify on proofs and keys of arbitrary *shape*: every
// combination of len(proof.Commitments), the key's commitment lists (with symbolic, in-range
// indices), len(vk.G1.K), len(publicWitness), with or without Pedersen keys. Group
// operations, pairings, hashes and predicates are opaque stubs (every outcome explored).
//
//  * no path may panic (C08)
//  * accept  =>  #commitments of the proof == #commitment lists of the key, witness length
//                == #public - 1 (C01: "a proof whose list of commitments differs in number")
//verif:unwind 300
//verif:init GROTHPKG
//verif:replay interpreter

import (
	curve "CURVEPKG"
	"CURVEPKG/fr"
	"CURVEPKG/fr/pedersen"
)

func verifHarness_groth16VerifyShapes() {
	nCommit := verifChoose(4) // len(proof.Commitments) 0..3
	nVkC := verifChoose(3)    // len(vk.PublicAndCommitmentCommitted) 0..2
	nK := 1 + verifChoose(4)  // len(vk.G1.K) 1..4
	nW := verifChoose(4)      // len(publicWitness) 0..3
	withKeys := verifChoose(2)
	proof := &Proof{Commitments: make([]curve.G1Affine, nCommit)}
	vk := &VerifyingKey{}
	vk.G1.K = make([]curve.G1Affine, nK)
	vk.PublicAndCommitmentCommitted = make([][]int, nVkC)
	nbPublicVars := nK - nVkC
	if nbPublicVars < 1 { // Setup invariant: K has an entry for the ONE wire, every public wire and every commitment wire
		verifAssume(false)
	}
	for i := range vk.PublicAndCommitmentCommitted {
		l := make([]int, verifChoose(3))
		for j := range l {
			l[j] = verifNondetInt("committedWire")
			// Setup invariant: ids of public wires (not the ONE wire) or of earlier commitment wires
			verifAssume(verifAnd(l[j] >= 1, l[j] <= nbPublicVars-1+i))
		}
		vk.PublicAndCommitmentCommitted[i] = l
	}
	if withKeys == 1 {
		vk.CommitmentKeys = make([]pedersen.VerifyingKey, nVkC)
	}
	w := make(fr.Vector, nW)
	err := Verify(proof, vk, w)
	if err == nil {
		verifAssert(nCommit == nVkC, "accept => the proof carries exactly the commitments the key prescribes")
		verifAssert(nW == nbPublicVars-1, "accept => witness length is #public - 1")
		verifReach("accept")
	} else {
		verifReach("reject")
	}
}
