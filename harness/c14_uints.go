package PKGNAME

// C14 harness (8/32/64-bit word gadgets): the table-free operations of uints.BinaryField -
// ValueOf, ToValue, Rshift, Lrot, Add, Pack/Unpack - executed against a frontend.API stand-in whose
// variables are SYMBOLIC 64-bit integers (all values on these paths are non-negative and below
// 2^40, so machine arithmetic is the field's). Two readings of the hints:
//   honest      : hint outputs are the meaning of the hint (byte decomposition, bit split); every
//                 assertion and range check the gadget emits must hold and the result must be the
//                 mathematical one - for ALL input words
//   adversarial : hint outputs are arbitrary; assertions and range checks are what the prover has
//                 to satisfy; whatever it supplies, the result is still the mathematical one
// U32: every shift / rotation 0..31, sums of 2 and 3 words; U64: Rshift / Lrot for a set of counts
// (sums of U64 words exceed the 64-bit stand-in: outside).
//verif:unwind 4000
//verif:replay interpreter

import (
	"math/big"

	"github.com/consensys/gnark/constraint/solver"
	"github.com/consensys/gnark/frontend"
)

type verifW struct{ v uint64 } // a circuit variable holding a symbolic integer

type verifBVEng struct {
	frontend.API
	comp        *verifBVCompiler
	adversarial bool
}
type verifBVCompiler struct {
	frontend.Compiler
	eng *verifBVEng
}

func verifU(x frontend.Variable) uint64 {
	switch t := x.(type) {
	case verifW:
		return t.v
	case int:
		return uint64(t)
	case uint8:
		return uint64(t)
	case uint:
		return uint64(t)
	case uint64:
		return t
	case *big.Int:
		return t.Uint64()
	}
	panic("unexpected variable type in the word stand-in")
}

func (e *verifBVEng) Compiler() frontend.Compiler { return e.comp }
func (e *verifBVEng) Add(i1, i2 frontend.Variable, in ...frontend.Variable) frontend.Variable {
	r := verifU(i1) + verifU(i2)
	for _, x := range in {
		r += verifU(x)
	}
	return verifW{r}
}
func (e *verifBVEng) Mul(i1, i2 frontend.Variable, in ...frontend.Variable) frontend.Variable {
	r := verifU(i1) * verifU(i2)
	for _, x := range in {
		r *= verifU(x)
	}
	return verifW{r}
}
func (e *verifBVEng) holds(c bool, msg string) {
	if e.adversarial {
		verifAssume(c) // a constraint the prover has to satisfy
	} else {
		verifAssert(c, msg)
	}
}
func (e *verifBVEng) AssertIsEqual(i1, i2 frontend.Variable) {
	e.holds(verifU(i1) == verifU(i2), "an AssertIsEqual emitted by the gadget holds for the honest prover")
}
func (e *verifBVEng) Check(v frontend.Variable, bits int) {
	e.holds(verifU(v) < uint64(1)<<uint(bits), "a range check emitted by the gadget holds for the honest prover")
}
func (c *verifBVCompiler) FieldBitLen() int { return 254 }
func (c *verifBVCompiler) ConstantValue(v frontend.Variable) (*big.Int, bool) {
	if _, ok := v.(verifW); ok {
		return nil, false
	}
	return new(big.Int).SetUint64(verifU(v)), true
}
func (c *verifBVCompiler) NewHint(f solver.Hint, nbOutputs int, inputs ...frontend.Variable) ([]frontend.Variable, error) {
	res := make([]frontend.Variable, nbOutputs)
	if c.eng.adversarial {
		for i := range res {
			w := verifNondetU64("hint")
			verifAssume(w < 1<<40) // field elements far above the word sizes are excluded by the range checks anyway; keeps the stand-in's arithmetic exact
			res[i] = verifW{w}
		}
		return res, nil
	}
	switch {
	case nbOutputs == 2 && len(inputs) == 2: // bitslice.partitionHint(split, v) = (v >> split, v mod 2^split)
		split, v := verifU(inputs[0]), verifU(inputs[1])
		res[0] = verifW{v >> split}
		res[1] = verifW{v & (uint64(1)<<split - 1)}
	case len(inputs) == 2: // uints.toBytes(n, v) = the n little-endian bytes of v
		v := verifU(inputs[1])
		for i := range res {
			res[i] = verifW{(v >> uint(8*i)) & 0xff}
		}
	default:
		panic("hint the word stand-in has no meaning for")
	}
	return res, nil
}

func verifMkBF32(adv bool) *BinaryField[U32] {
	e := &verifBVEng{adversarial: adv}
	e.comp = &verifBVCompiler{eng: e}
	return &BinaryField[U32]{api: e, rchecker: e}
}
func verifMkBF64(adv bool) *BinaryField[U64] {
	e := &verifBVEng{adversarial: adv}
	e.comp = &verifBVCompiler{eng: e}
	return &BinaryField[U64]{api: e, rchecker: e}
}

// a word whose bytes are circuit variables already known to be bytes (as ValueOf / tables guarantee)
func verifWord32(name string) (U32, uint64) {
	var w U32
	var v uint64
	for i := range w {
		b := verifNondetU64(name)
		verifAssume(b < 256)
		w[i] = U8{Val: verifW{b}, internal: true}
		v |= b << uint(8*i)
	}
	return w, v
}
func verifWord64(name string) (U64, uint64) {
	var w U64
	var v uint64
	for i := range w {
		b := verifNondetU64(name)
		verifAssume(b < 256)
		w[i] = U8{Val: verifW{b}, internal: true}
		v |= b << uint(8*i)
	}
	return w, v
}
func verifVal32(w U32) uint64 {
	var v uint64
	for i := range w {
		v |= verifU(w[i].Val) << uint(8*i)
	}
	return v
}
func verifBytes32(w U32) bool {
	ok := true
	for i := range w {
		ok = verifAnd(ok, verifU(w[i].Val) < 256)
	}
	return ok
}
func verifVal64(w U64) uint64 {
	var v uint64
	for i := range w {
		v |= verifU(w[i].Val) << uint(8*i)
	}
	return v
}
func verifBytes64(w U64) bool {
	ok := true
	for i := range w {
		ok = verifAnd(ok, verifU(w[i].Val) < 256)
	}
	return ok
}

func verifHarness_u32ShiftRotate() {
	adv := verifChoose(2) == 1
	c := verifChoose(32)
	bf := verifMkBF32(adv)
	a, av := verifWord32("a")
	r := bf.Rshift(a, c)
	verifAssert(verifBytes32(r), "Rshift returns bytes")
	verifAssert(verifVal32(r) == av>>uint(c), "Rshift(a, c) is a >> c")
	l := bf.Lrot(a, c)
	verifAssert(verifBytes32(l), "Lrot returns bytes")
	verifAssert(verifVal32(l) == (av<<uint(c)|av>>uint(32-c))&0xffffffff, "Lrot(a, c) is a rotated left by c")
	verifReach("u32-shift-rotate")
}

func verifHarness_u32Add() {
	adv := verifChoose(2) == 1
	n := 2 + verifChoose(2)
	bf := verifMkBF32(adv)
	ws := make([]U32, n)
	var sum uint64
	for i := range ws {
		var v uint64
		ws[i], v = verifWord32("a")
		sum += v
	}
	r := bf.Add(ws...)
	verifAssert(verifBytes32(r), "Add returns bytes")
	verifAssert(verifVal32(r) == sum&0xffffffff, "Add is the sum modulo 2^32")
	verifReach("u32-add")
}

func verifHarness_u32ValueOf() {
	adv := verifChoose(2) == 1
	bf := verifMkBF32(adv)
	x := verifNondetU64("x")
	verifAssume(x < 1<<34) // also values that do not fit: the gadget must then be unsatisfiable
	fits := x < 1<<32
	if !adv && !fits {
		verifAssume(false) // honest reading: inside the domain only
	}
	r := bf.ValueOf(verifW{x})
	// reached in the adversarial reading only if the prover satisfied every constraint
	verifAssert(fits, "ValueOf is unsatisfiable for a value that does not fit the word")
	verifAssert(verifBytes32(r) && verifVal32(r) == x, "ValueOf returns the little-endian bytes of the value")
	verifAssert(verifU(bf.ToValue(r)) == x, "ToValue recomposes the value")
	m := bf.PackMSB(bf.UnpackMSB(r)...)
	verifAssert(verifVal32(m) == x, "PackMSB / UnpackMSB are inverse")
	verifReach("u32-valueof")
}

func verifHarness_u64ShiftRotate() {
	adv := verifChoose(2) == 1
	counts := []int{0, 1, 7, 8, 9, 16, 24, 31, 32, 33, 40, 56, 57, 63}
	c := counts[verifChoose(len(counts))]
	bf := verifMkBF64(adv)
	a, av := verifWord64("a")
	r := bf.Rshift(a, c)
	verifAssert(verifBytes64(r), "Rshift returns bytes")
	verifAssert(verifVal64(r) == av>>uint(c), "Rshift(a, c) is a >> c")
	l := bf.Lrot(a, c)
	verifAssert(verifBytes64(l), "Lrot returns bytes")
	verifAssert(verifVal64(l) == av<<uint(c)|av>>uint(64-c), "Lrot(a, c) is a rotated left by c")
	verifReach("u64-shift-rotate")
}
