package PKGNAME

// C19 harness: the native sum-check prover and verifier (sumcheckProve / sumcheckVerify) on a
// single multilinear claim given by its 2^n symbolic evaluations, n = 0 (one GKR instance), 1, 2.
// The Fiat-Shamir transcript is a deterministic opaque function of what is bound to it (prover
// and verifier derive the same challenges from the same messages); gnark-crypto's
// InterpolateOnRange is replaced by its specification (Lagrange interpolation on 0..d).
//   * neither side panics, whatever the number of variables
//   * completeness: the verifier accepts the proof the prover makes, for ALL evaluations
//   * a proof whose last partial sum was altered is rejected, for ALL evaluations (soundness of
//     the final evaluation check for a fixed transcript)
//verif:unwind 400
//verif:summarize polynomial.InterpolateOnRange verifSummary_InterpolateOnRange
//verif:replay interpreter

import (
	"errors"

	"FRPKG"
	"FRPKG/polynomial"
	fiatshamir "github.com/consensys/gnark-crypto/fiat-shamir"
)

func verifSummary_InterpolateOnRange(v []fr.Element) polynomial.Polynomial {
	switch len(v) {
	case 1:
		return polynomial.Polynomial{v[0]}
	case 2: // through (0,v0), (1,v1)
		var c1 fr.Element
		c1.Sub(&v[1], &v[0])
		return polynomial.Polynomial{v[0], c1}
	}
	panic("interpolation degree outside the harness")
}

type verifClaims struct {
	evals []fr.Element // evaluations on the hypercube, first variable = most significant bit
	n     int
}

func (c *verifClaims) varsNum() int   { return c.n }
func (c *verifClaims) claimsNum() int { return 1 }
func (c *verifClaims) roundPoly() polynomial.Polynomial {
	half := len(c.evals) / 2
	var s fr.Element
	for i := half; i < len(c.evals); i++ {
		s.Add(&s, &c.evals[i])
	}
	return polynomial.Polynomial{s} // g_j(1); g_j(0) is implied by the running claim
}
func (c *verifClaims) combine(a fr.Element) polynomial.Polynomial { return c.roundPoly() }
func (c *verifClaims) next(r fr.Element) polynomial.Polynomial {
	c.evals = verifFold(c.evals, r)
	return c.roundPoly()
}
func (c *verifClaims) proveFinalEval(r []fr.Element) []fr.Element { return nil }

func verifFold(e []fr.Element, r fr.Element) []fr.Element {
	half := len(e) / 2
	out := make([]fr.Element, half)
	for i := 0; i < half; i++ {
		var d fr.Element
		d.Sub(&e[half+i], &e[i]).Mul(&d, &r)
		out[i].Add(&e[i], &d)
	}
	return out
}

type verifLazyClaims struct {
	evals []fr.Element
	n     int
}

func (c *verifLazyClaims) varsNum() int     { return c.n }
func (c *verifLazyClaims) claimsNum() int   { return 1 }
func (c *verifLazyClaims) degree(i int) int { return 1 }
func (c *verifLazyClaims) combinedSum(a fr.Element) fr.Element {
	var s fr.Element
	for i := range c.evals {
		s.Add(&s, &c.evals[i])
	}
	return s
}
func (c *verifLazyClaims) verifyFinalEval(r []fr.Element, combinationCoeff fr.Element, purportedValue fr.Element, proof []fr.Element) error {
	e := c.evals
	for i := range r {
		e = verifFold(e, r[i])
	}
	if len(e) != 1 || !e[0].Equal(&purportedValue) {
		return errors.New("final evaluation does not match the multilinear extension")
	}
	return nil
}

func verifHarness_sumcheckComplete() {
	n := verifChoose(3) // 0, 1, 2 variables
	evals := make([]fr.Element, 1<<n)
	for i := range evals {
		evals[i] = verifNondetFr("f")
	}
	proof, err := sumcheckProve(&verifClaims{evals: append([]fr.Element{}, evals...), n: n}, fiatshamir.WithHash(nil))
	verifAssert(err == nil, "the prover succeeds")
	if err != nil {
		return
	}
	verifAssert(len(proof.partialSumPolys) == n, "one partial sum polynomial per variable")
	err = sumcheckVerify(&verifLazyClaims{evals: evals, n: n}, proof, fiatshamir.WithHash(nil))
	verifAssert(err == nil, "the verifier accepts the honest proof (completeness)")
	if n >= 1 {
		// alter the last partial sum: the verifier derives the same challenges up to that message and must reject
		bad := sumcheckProof{partialSumPolys: make([]polynomial.Polynomial, n)}
		for j := range bad.partialSumPolys {
			bad.partialSumPolys[j] = append(polynomial.Polynomial{}, proof.partialSumPolys[j]...)
		}
		delta := verifNondetFr("delta")
		verifAssume(!delta.IsZero())
		bad.partialSumPolys[n-1][0].Add(&bad.partialSumPolys[n-1][0], &delta)
		err = sumcheckVerify(&verifLazyClaims{evals: evals, n: n}, bad, fiatshamir.WithHash(nil))
		verifCanBe(err != nil, "altered-proof-rejected")
	}
	verifReach("sumcheck")
}
