package PKGNAME

// C15 harness (MiMC): the in-circuit MiMC gadget against gnark-crypto's native MiMC, as symbolic
// field computations: for messages of 1..2 symbolic field elements the gadget's digest (run
// against a field-valued API stand-in) and the native digest (fed the canonical encodings of the
// same elements) are the SAME field expression: same round constants (read from the same
// gnark-crypto table), same number of rounds, same exponent, same key schedule and Miyaguchi-
// Preneel feed-forward. Round constants are opaque symbols (they come from hashing a seed).
//verif:unwind 4000
//verif:init github.com/consensys/gnark-crypto/hash NATIVEPKG github.com/consensys/gnark/std/hash/mimc github.com/consensys/gnark/std/hash

import (
	"FRPKG"
	native "NATIVEPKG"
)

func verifHarness_mimcMatchesNative() {
	n := 1 + verifChoose(2)
	msg := make([]fr.Element, n)
	for i := range msg {
		msg[i] = verifNondetFr("m")
	}
	api := &verifFieldEng{}
	h := NEWMIMC(api)
	for i := range msg {
		h.Write(verifFV{msg[i]})
	}
	got := verifFE(h.Sum())

	nh := native.NewMiMC()
	for i := range msg {
		b := msg[i].Bytes()
		_, err := nh.Write(b[:])
		verifAssert(err == nil, "the native hash accepts a canonical element encoding")
	}
	sum := nh.Sum(nil)
	var want fr.Element
	var buf [fr.Bytes]byte
	verifAssert(len(sum) == fr.Bytes, "the native digest is one field element")
	copy(buf[:], sum)
	w, err := fr.BigEndian.Element(&buf)
	verifAssert(err == nil, "the native digest decodes")
	want = w
	verifAssert(got.Equal(&want), "the in-circuit MiMC digest equals the native MiMC digest")
	verifReach("mimc")
}
