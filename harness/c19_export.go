package PKGNAME

import (
	"github.com/consensys/gnark/constraint"
	"github.com/consensys/gnark/constraint/solver"
	"github.com/consensys/gnark/frontend"
)

// C19 harness (instance permutation): GkrInfo.Compile sorts the instances so that every
// dependency's output instance is solved before its input instance; the assignments are permuted
// into that order (assignment.Permute) and Solution.Export must hand the values back in the
// ORIGINAL instance order. 4 instances, circuit x, y inputs, z = gate(x, y); x has two
// dependencies with symbolic (output instance, input instance) pairs, assumed acyclic and with
// distinct input instances. Marker values stand for the variables.
//verif:unwind 3000
//verif:symindex 0
//verif:replay interpreter

func verifHarness_exportOrder() {
	const n = 4
	o0, i0 := verifNondetInt("out0"), verifNondetInt("in0")
	o1, i1 := verifNondetInt("out1"), verifNondetInt("in1")
	for _, v := range []int{o0, i0, o1, i1} {
		verifAssume(verifAnd(v >= 0, v < n))
	}
	nbDeps := verifChoose(3)
	verifAssume(o0 != i0)
	verifAssume(o1 != i1)
	verifAssume(i0 != i1)                        // one dependency per input instance
	verifAssume(!verifAnd(o0 == i1, o1 == i0))   // acyclic
	deps := []constraint.InputDependency{{OutputWire: 2, OutputInstance: o0, InputInstance: i0}, {OutputWire: 2, OutputInstance: o1, InputInstance: i1}}[:nbDeps]
	info := constraint.GkrInfo{Circuit: constraint.GkrCircuit{
		{Dependencies: deps},
		{},
		{Gate: "mul", Inputs: []int{0, 1}},
	}}
	// marker values: wire w, instance i -> 100*w + i
	a := assignment{make([]frontend.Variable, n), make([]frontend.Variable, n), nil}
	for i := 0; i < n; i++ {
		a[0][i] = 0 + i
		a[1][i] = 100 + i
	}
	p, err := info.Compile(n)
	verifAssert(err == nil, "a dependency pattern with one dependency per input instance compiles")
	if err != nil {
		return
	}
	// the sorted order honours the dependencies
	for k := 0; k < nbDeps; k++ {
		d := info.Circuit[0].Dependencies[k]
		verifAssert(d.OutputInstance < d.InputInstance, "after Compile every dependency's output instance is solved before its input instance")
		verifAssert(d.OutputWire == 2, "the dependency still names the gate wire")
	}
	for k := 1; k < nbDeps; k++ {
		// what Chunks and the solving hint's dependency walk (binary search + head pointer) rely on
		verifAssert(info.Circuit[0].Dependencies[k-1].InputInstance < info.Circuit[0].Dependencies[k].InputInstance, "after Compile a wire's dependencies are listed by increasing input instance")
	}
	for k := 0; k < n; k++ {
		verifAssert(p.InstancesPermutation[p.SortedInstances[k]] == k, "InstancesPermutation inverts SortedInstances")
	}
	a.Permute(p)
	// in sorted order, position k holds original instance SortedInstances[k]
	for k := 0; k < n; k++ {
		verifAssert(a[1][k].(int) == 100+p.SortedInstances[k], "Permute brings the assignments into solving order")
	}
	// the solving hint returns z in solving order: marker 200 + original instance
	a[2] = make([]frontend.Variable, n)
	for k := 0; k < n; k++ {
		a[2][k] = 200 + p.SortedInstances[k]
	}
	s := Solution{toStore: info, assignments: a, permutations: p}
	Y := s.Export(1)
	Z := s.Export(2)
	X := s.Export(0)
	for i := 0; i < n; i++ {
		verifAssert(Y[i].(int) == 100+i, "Export returns an imported variable's values in the original instance order")
		verifAssert(Z[i].(int) == 200+i, "Export returns an output variable's values in the original instance order")
		verifAssert(X[i].(int) == i, "Export returns the dependent input's values in the original instance order")
	}
	verifReach("export")
}

// the whole bookkeeping of API.Import / Series / Solve / Export on a fake parent API whose hint
// returns marker variables: output k of the solving hint is the gate's value at solving position k.
type verifFakeCompiler struct {
	frontend.Compiler
	ins []frontend.Variable
}

func (c *verifFakeCompiler) NewHint(f solver.Hint, nbOutputs int, inputs ...frontend.Variable) ([]frontend.Variable, error) {
	c.ins = inputs
	outs := make([]frontend.Variable, nbOutputs)
	for k := range outs {
		outs[k] = 1000 + k
	}
	return outs, nil
}

type verifFakeAPI struct {
	frontend.API
	c *verifFakeCompiler
}

func (a *verifFakeAPI) Compiler() frontend.Compiler { return a.c }

func verifHarness_solveExport() {
	const n = 4
	o0, i0 := verifNondetInt("out0"), verifNondetInt("in0")
	o1, i1 := verifNondetInt("out1"), verifNondetInt("in1")
	for _, v := range []int{o0, i0, o1, i1} {
		verifAssume(verifAnd(v >= 0, v < n))
	}
	nbDeps := verifChoose(3)
	verifAssume(o0 != i0)
	verifAssume(o1 != i1)
	verifAssume(i0 != i1)
	verifAssume(!verifAnd(o0 == i1, o1 == i0))
	X := make([]frontend.Variable, n)
	Y := make([]frontend.Variable, n)
	for i := 0; i < n; i++ {
		Y[i] = 100 + i
		if !((nbDeps >= 1 && i == i0) || (nbDeps >= 2 && i == i1)) {
			X[i] = i
		}
	}
	gkr := NewApi()
	x, err := gkr.Import(X)
	verifAssert(err == nil, "Import accepts a power-of-two number of instances")
	y, err := gkr.Import(Y)
	verifAssert(err == nil, "Import accepts a second variable with the same number of instances")
	z := gkr.Mul(x, y)
	if nbDeps >= 1 {
		gkr.Series(x, z, i0, o0)
	}
	if nbDeps >= 2 {
		gkr.Series(x, z, i1, o1)
	}
	fake := &verifFakeAPI{c: &verifFakeCompiler{}}
	sol, err := gkr.Solve(fake)
	verifAssert(err == nil, "Solve succeeds on an acyclic dependency pattern")
	if err != nil {
		return
	}
	for i := 0; i < n; i++ {
		verifAssert(Y[i].(int) == 100+i, "Solve leaves the caller's assignment slice alone")
	}
	eX, eY, eZ := sol.Export(x), sol.Export(y), sol.Export(z)
	verifAssert(len(fake.c.ins) == 2*n-nbDeps, "the solving hint receives every explicitly assigned value")
	for i := 0; i < n; i++ {
		verifAssert(eY[i].(int) == 100+i, "Export returns an imported variable's values in the original instance order")
		k := eZ[i].(int) - 1000 // solving position of instance i
		verifAssert(k >= 0 && k < n, "every exported output is an output of the solving hint")
		if k < 0 || k >= n {
			continue
		}
		// the y value fed to the hint at that solving position is this instance's own y
		verifAssert(fake.c.ins[n-nbDeps+k].(int) == 100+i, "the gate value exported for an instance was computed from that instance's own imported input")
		isDep0 := nbDeps >= 1 && i == i0
		isDep1 := nbDeps >= 2 && i == i1
		switch {
		case isDep0:
			verifAssert(eX[i].(int) == eZ[o0].(int), "a dependent input is the named output of the named instance")
			verifAssert(eZ[o0].(int)-1000 < k, "the instance a dependency reads from is solved first")
		case isDep1:
			verifAssert(eX[i].(int) == eZ[o1].(int), "a dependent input is the named output of the named instance")
			verifAssert(eZ[o1].(int)-1000 < k, "the instance a dependency reads from is solved first")
		default:
			verifAssert(eX[i].(int) == i, "Export returns an explicitly assigned input unchanged")
		}
	}
	for a := 0; a < n; a++ {
		for b := 0; b < a; b++ {
			verifAssert(eZ[a].(int) != eZ[b].(int), "distinct instances export distinct hint outputs")
		}
	}
	verifReach("solve-export")
}
