package PKGNAME

// C10 harness (scheduling): the solver's run() - worker pool, task channel, error channel,
// WaitGroup - under the cooperative goroutine scheduler: every interleaving of the main goroutine
// and the workers at their synchronisation operations with at most 2 preemptions. The per
// instruction work is a stand-in that fails on chosen instructions (processInstruction itself is
// C06's subject). One level of 120 instructions (so that it is split into tasks) after a small
// sequential level; nbTasks 2 (quick) or 2..3 (thorough); two symbolic failing-instruction ids ranging over
// none / 5 representative positions (same task, different tasks, sequential level).
//   * run() returns on every schedule (no deadlock, no panic, no send on a closed channel)
//   * it returns an error iff some instruction failed, and then one of the failing ones' errors
//   * with no failure every instruction was processed exactly once
//verif:unwind 4000
//verif:goroutines scheduled preempt=PREEMPTS
//verif:summarize solver).processInstruction verifSummary_processInstruction
//verif:replay interpreter

import (
	"errors"

	"github.com/consensys/gnark/constraint"
)

var (
	verifFail        [2]int
	verifErrs        [2]error
	verifProcessed   []int
	verifInteresting map[int]bool
)

func verifSummary_processInstruction(s *solver, pi constraint.PackedInstruction, scratch *scratch) error {
	id := int(pi.ConstraintOffset)
	verifProcessed[id]++
	if !verifInteresting[id] {
		return nil
	}
	for k := range verifFail {
		if verifFail[k] == id { // symbolic: the solver decides which instruction a failure can sit on
			return verifErrs[k]
		}
	}
	return nil
}

func verifHarness_runSchedules() {
	const nSeq, nPar = 3, 120
	nbTasks := 2 + verifChoose(NBTASKCHOICES)
	sys := &system{}
	for i := 0; i < nSeq+nPar; i++ {
		sys.Instructions = append(sys.Instructions, constraint.PackedInstruction{ConstraintOffset: uint32(i)})
	}
	l0 := make([]uint32, nSeq)
	for i := range l0 {
		l0[i] = uint32(i)
	}
	l1 := make([]uint32, nPar)
	for i := range l1 {
		l1[i] = uint32(nSeq + i)
	}
	sys.Levels = [][]uint32{l0, l1}
	s := &solver{system: sys, nbTasks: nbTasks}
	verifProcessed = make([]int, nSeq+nPar)
	// failing instructions: two symbolic ids, each -1 (none) or one of: a sequential instruction, the
	// first / second instruction of the first task, the first of the second task, the very last one
	places := []int{1, nSeq, nSeq + 1, nSeq + nPar/nbTasks, nSeq + nPar - 1}
	verifInteresting = map[int]bool{}
	for _, p := range places {
		verifInteresting[p] = true
	}
	nFailSym := 0
	for k := range verifFail {
		f := verifNondetInt("failing")
		in := f == -1
		for _, p := range places {
			in = verifOr(in, f == p)
		}
		verifAssume(in)
		verifFail[k] = f
		verifErrs[k] = errors.New("instruction failed")
		nFailSym += verifB2I(f != -1)
	}
	err := s.run()
	if nFailSym == 0 {
		verifAssert(err == nil, "run succeeds when every instruction succeeds")
		for i := range verifProcessed {
			verifAssert(verifProcessed[i] == 1, "every instruction is processed exactly once")
		}
		verifReach("all-solved")
		return
	}
	verifAssert(err != nil, "run fails when an instruction fails")
	verifAssert(err == verifErrs[0] || err == verifErrs[1], "the error returned is the error of a failing instruction")
	verifReach("failed")
}
