package PKGNAME

// C06 harness: the level builder. An instruction must be scheduled strictly after every
// instruction that produces a wire it reads, and the wire(s) it produces get its level. Abstract
// instruction tree with symbolic state (4 wires: present or not, level unset or 0..3); wire ids
// in the calldata are symbolic.
//   * updateInstructionTree (all sparse blueprints): returned level = 1 + max level of the
//     levelled wires read (0 if none), the (single) unset wire is inserted at exactly that level,
//     nothing else changes
//   * BlueprintGenericR1C.UpdateInstructionTree: same, every unset wire of L, R, O is inserted
//   * BlueprintGenericHint.UpdateInstructionTree: outputs inserted at 1 + max level of the inputs
//verif:unwind 600

const verifNbTreeWires = 4

type verifTree struct {
	has      []bool
	level    []Level
	inserted int
}

func (t *verifTree) HasWire(w uint32) bool {
	if w >= verifNbTreeWires {
		return false // constants (MaxUint32)
	}
	return t.has[w]
}
func (t *verifTree) GetWireLevel(w uint32) Level { return t.level[w] }
func (t *verifTree) InsertWire(w uint32, l Level) {
	if t.level[w] != LevelUnset {
		panic("wire already exist in instruction tree")
	}
	t.level[w] = l
	t.inserted++
}

func verifMkTree() *verifTree {
	t := &verifTree{has: make([]bool, verifNbTreeWires), level: make([]Level, verifNbTreeWires)}
	for i := range t.has {
		t.has[i] = verifNondetBool("has")
		l := verifNondetInt("level")
		verifAssume(verifAnd(l >= -1, l <= 3))
		t.level[i] = Level(l)
	}
	return t
}

func verifTreeWire(name string) uint32 {
	w := verifNondetU32(name)
	verifAssume(w < verifNbTreeWires)
	return w
}

// expected level: 1 + max level over the levelled, present wires among ws (0 if none)
func verifExpectedLevel(pre *verifTree, ws []uint32) Level {
	m := -1
	for _, w := range ws {
		for k := 0; k < verifNbTreeWires; k++ {
			isK := verifAnd(int(w) == k, verifAnd(pre.has[k], pre.level[k] != LevelUnset))
			m = verifIteInt(verifAnd(isK, int(pre.level[k]) > m), int(pre.level[k]), m)
		}
	}
	return Level(m + 1)
}

func verifCopyTree(t *verifTree) *verifTree {
	return &verifTree{has: append([]bool{}, t.has...), level: append([]Level{}, t.level...)}
}

func verifCheckTree(pre, post *verifTree, ws []uint32, got Level, allowMany bool) {
	want := verifExpectedLevel(pre, ws)
	verifAssert(got == want, "the instruction's level is 1 + the highest level among the wires it reads")
	for k := 0; k < verifNbTreeWires; k++ {
		read := false
		for _, w := range ws {
			read = verifOr(read, int(w) == k)
		}
		isOut := verifAnd(read, verifAnd(pre.has[k], pre.level[k] == LevelUnset))
		verifAssert(verifImplies(isOut, post.level[k] == got), "a wire produced by the instruction gets the instruction's level")
		verifAssert(verifImplies(!isOut, post.level[k] == pre.level[k]), "other wires keep their level")
	}
}

func verifHarness_updateInstructionTree() {
	t := verifMkTree()
	ws := []uint32{verifTreeWire("a"), verifTreeWire("b"), verifTreeWire("c")}
	// contract: at most one DISTINCT unset wire among those read
	nb := 0
	for k := 0; k < verifNbTreeWires; k++ {
		read := false
		for _, w := range ws {
			read = verifOr(read, int(w) == k)
		}
		nb += verifB2I(verifAnd(read, verifAnd(t.has[k], t.level[k] == LevelUnset)))
	}
	verifAssume(nb <= 1)
	pre := verifCopyTree(t)
	got := updateInstructionTree(ws, t)
	verifCheckTree(pre, t, ws, got, false)
	verifReach("sparse-levels")
}

func verifHarness_r1cUpdateInstructionTree() {
	t := verifMkTree()
	ws := []uint32{verifTreeWire("l"), verifTreeWire("l2"), verifTreeWire("r"), verifTreeWire("o")}
	// distinct unset wires only (a wire listed twice would be inserted twice: frontend contract)
	for i := range ws {
		for j := 0; j < i; j++ {
			verifAssume(verifOr(ws[i] != ws[j], !verifAnd(t.has[ws[i]], t.level[ws[i]] == LevelUnset)))
		}
	}
	pre := verifCopyTree(t)
	calldata := []uint32{12, 2, 1, 1, 1, ws[0], 1, ws[1], 1, ws[2], 1, ws[3]}
	bp := &BlueprintGenericR1C{}
	got := bp.UpdateInstructionTree(Instruction{Calldata: calldata}, t)
	verifCheckTree(pre, t, ws, got, true)
	verifReach("r1c-levels")
}

func verifHarness_hintUpdateInstructionTree() {
	t := verifMkTree()
	in1, in2 := verifTreeWire("in1"), verifTreeWire("in2")
	// inputs are levelled or not in the tree (contract: a hint reads solved wires only)
	verifAssume(verifOr(!t.has[in1], t.level[in1] != LevelUnset))
	verifAssume(verifOr(!t.has[in2], t.level[in2] != LevelUnset))
	// output range: one fresh wire (wire 3), unset
	verifAssume(verifAnd(t.has[3], t.level[3] == LevelUnset))
	verifAssume(verifAnd(in1 != 3, in2 != 3))
	pre := verifCopyTree(t)
	// calldata: size, hintID, nbInputs=2, [1 term: (cid, in1)], [1 term: (cid, in2)], out start, out end
	calldata := []uint32{11, 77, 2, 1, 1, in1, 1, 1, in2, 3, 4}
	bp := &BlueprintGenericHint{}
	got := bp.UpdateInstructionTree(Instruction{Calldata: calldata}, t)
	want := verifExpectedLevel(pre, []uint32{in1, in2})
	verifAssert(got == want, "the hint's level is 1 + the highest level among its inputs")
	verifAssert(t.level[3] == got, "the hint's output wire gets the hint's level")
	for k := 0; k < 3; k++ {
		verifAssert(t.level[k] == pre.level[k], "other wires keep their level")
	}
	verifReach("hint-levels")
}

