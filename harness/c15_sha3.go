package PKGNAME

// C15 harness (padding only): pad10*1 of the SHA-3 / Keccak gadgets for every rate used by the
// package (72, 104, 136, 144, 168), both domain-separation bytes (0x06 SHA-3, 0x01 Keccak,
// 0x1f SHAKE), every message length 0..rate+2 and symbolic message bytes: the padded stream is
// msg || ds || 0.. || 0x80 (ds^0x80 when a single byte is missing), a whole number of rate-sized
// blocks, minimal.
//verif:unwind 3000

import "github.com/consensys/gnark/std/math/uints"

func verifU8Is(u uints.U8, b byte) bool {
	v, ok := u.Val.(uint8)
	return ok && v == b
}

func verifHarness_padding() {
	rates := []int{72, 104, 136, 144, 168}
	rate := rates[verifChoose(5)]
	ds := []byte{0x06, 0x01, 0x1f}[verifChoose(3)]
	// lengths around the block boundary: 0..3 and rate-3..rate+2
	k := verifChoose(10)
	L := k
	if k >= 4 {
		L = rate - 3 + (k - 4)
	}
	d := &digest{rate: rate, dsbyte: ds}
	d.in = make([]uints.U8, L)
	for i := range d.in {
		d.in[i] = uints.U8{Val: verifNondetByte("m")}
	}
	p := d.padding()
	verifAssert(len(p)%rate == 0, "padded length is a whole number of blocks")
	verifAssert(len(p) > L && len(p) <= L+rate, "padding is minimal and never empty")
	for i := 0; i < L && i < len(p); i++ {
		verifAssert(p[i].Val == d.in[i].Val, "message bytes are kept in place")
	}
	if len(p) == L+1 {
		verifAssert(verifU8Is(p[L], ds^0x80), "single padding byte is ds|0x80")
	} else if len(p) > L+1 {
		verifAssert(verifU8Is(p[L], ds), "first padding byte is the domain separation byte")
		for i := L + 1; i < len(p)-1; i++ {
			verifAssert(verifU8Is(p[i], 0), "zero padding")
		}
		verifAssert(verifU8Is(p[len(p)-1], 0x80), "last padding byte is 0x80")
	}
	verifReach("padding")
}
