package PKGNAME

// C16 harness (emulated short-Weierstrass complete addition): the real Curve.AddUnified of sw_emulated runs with
// every emulated.Field method it calls (Add, Sub, MulMod, Div, Select, IsZero, Reduce, Zero, One) replaced by its
// SPECIFICATION over a small prime field (summaries: an Element carries one field value; emulated arithmetic itself
// is C12's subject) - stand-in base field GF(13) (13 = 1 mod 3, so a j = 0 curve has the non-trivial automorphism
// (x, y) -> (w x, y) that real-number reasoning cannot exhibit), curve y^2 = x^3 + b with a symbolic b != 0.
// For ALL pairs of inputs in AddUnified's documented domain (points on the curve, or (0,0) for the point at infinity;
// equal, opposite, any), the result is the group law's: the solver ranges over the whole field.
//verif:unwind 4000
//verif:summarize EMBASE]).Add[github.com/consensys/gnark/std/math/emulated/emparams.EMBASE] verifSum_Add
//verif:summarize EMBASE]).Sub[github.com/consensys/gnark/std/math/emulated/emparams.EMBASE] verifSum_Sub
//verif:summarize EMBASE]).MulMod[github.com/consensys/gnark/std/math/emulated/emparams.EMBASE] verifSum_Mul
//verif:summarize EMBASE]).Mul[github.com/consensys/gnark/std/math/emulated/emparams.EMBASE] verifSum_Mul
//verif:summarize EMBASE]).Div[github.com/consensys/gnark/std/math/emulated/emparams.EMBASE] verifSum_Div
//verif:summarize EMBASE]).Select[github.com/consensys/gnark/std/math/emulated/emparams.EMBASE] verifSum_Select
//verif:summarize EMBASE]).IsZero[github.com/consensys/gnark/std/math/emulated/emparams.EMBASE] verifSum_IsZero
//verif:summarize EMBASE]).Reduce[github.com/consensys/gnark/std/math/emulated/emparams.EMBASE] verifSum_Reduce
//verif:summarize EMBASE]).Zero[github.com/consensys/gnark/std/math/emulated/emparams.EMBASE] verifSum_Zero
//verif:summarize EMBASE]).One[github.com/consensys/gnark/std/math/emulated/emparams.EMBASE] verifSum_One
//verif:replay interpreter

import (
	"FRPKG"
	"github.com/consensys/gnark/frontend"
	"github.com/consensys/gnark/std/math/emulated"
	"github.com/consensys/gnark/std/math/emulated/emparams"
)

type verifEl = emulated.Element[emparams.EMBASE]
type verifFd = emulated.Field[emparams.EMBASE]

func verifEmV(e *verifEl) fr.Element {
	var z fr.Element
	if len(e.Limbs) == 0 {
		return z
	}
	return verifFE(e.Limbs[0])
}
func verifEmMk(v fr.Element) *verifEl { return &verifEl{Limbs: []frontend.Variable{verifFV{v}}} }

func verifSum_Add(f *verifFd, a, b *verifEl) *verifEl {
	x, y := verifEmV(a), verifEmV(b)
	x.Add(&x, &y)
	return verifEmMk(x)
}
func verifSum_Sub(f *verifFd, a, b *verifEl) *verifEl {
	x, y := verifEmV(a), verifEmV(b)
	x.Sub(&x, &y)
	return verifEmMk(x)
}
func verifSum_Mul(f *verifFd, a, b *verifEl) *verifEl {
	x, y := verifEmV(a), verifEmV(b)
	x.Mul(&x, &y)
	return verifEmMk(x)
}
func verifSum_Div(f *verifFd, a, b *verifEl) *verifEl {
	x, y := verifEmV(a), verifEmV(b)
	verifAssert(!y.IsZero(), "Div is never given a zero divisor (the circuit would be unsatisfiable for a valid input)")
	y.Inverse(&y)
	x.Mul(&x, &y)
	return verifEmMk(x)
}
func verifSum_Select(f *verifFd, s frontend.Variable, a, b *verifEl) *verifEl {
	c := verifFE(s)
	if !c.IsZero() {
		return verifEmMk(verifEmV(a))
	}
	return verifEmMk(verifEmV(b))
}
func verifSum_IsZero(f *verifFd, a *verifEl) frontend.Variable {
	x := verifEmV(a)
	return verifBoolFV(x.IsZero())
}
func verifSum_Reduce(f *verifFd, a *verifEl) *verifEl { return verifEmMk(verifEmV(a)) }
func verifSum_Zero(f *verifFd) *verifEl               { var z fr.Element; return verifEmMk(z) }
func verifSum_One(f *verifFd) *verifEl                { var o fr.Element; o.SetOne(); return verifEmMk(o) }

func verifOnCurveOrInf(x, y, b fr.Element) bool {
	var l, r fr.Element
	l.Mul(&y, &y)
	r.Mul(&x, &x).Mul(&r, &x).Add(&r, &b)
	return verifOr(l.Equal(&r), verifAnd(x.IsZero(), y.IsZero()))
}

func verifHarness_swEmulatedAddUnified() {
	b := verifNondetFr("b")
	verifAssume(!b.IsZero())
	c := &Curve[emparams.EMBASE, emparams.EMSCALAR]{api: &verifFieldEng{}, baseApi: &verifFd{}, b: *verifEmMk(b)}
	x1, y1, x2, y2 := verifNondetFr("x1"), verifNondetFr("y1"), verifNondetFr("x2"), verifNondetFr("y2")
	verifAssume(verifOnCurveOrInf(x1, y1, b))
	verifAssume(verifOnCurveOrInf(x2, y2, b))
	// no points of order two (y = 0): the curves the package is instantiated with have odd group order
	verifAssume(verifOr(!y1.IsZero(), x1.IsZero()))
	verifAssume(verifOr(!y2.IsZero(), x2.IsZero()))
	p := &AffinePoint[emparams.EMBASE]{X: *verifEmMk(x1), Y: *verifEmMk(y1)}
	q := &AffinePoint[emparams.EMBASE]{X: *verifEmMk(x2), Y: *verifEmMk(y2)}
	r := c.AddUnified(p, q)
	rx, ry := verifEmV(&r.X), verifEmV(&r.Y)
	// the group law, case by case
	var wx, wy, ny2, lam, t fr.Element
	ny2.Neg(&y2)
	pInf := verifAnd(x1.IsZero(), y1.IsZero())
	qInf := verifAnd(x2.IsZero(), y2.IsZero())
	sameX := x1.Equal(&x2)
	oppY := y1.Equal(&ny2)
	msg := ""
	switch {
	case pInf:
		wx, wy = x2, y2
		msg = "AddUnified(p, q) = q when p is the point at infinity"
	case qInf:
		wx, wy = x1, y1
		msg = "AddUnified(p, q) = p when q is the point at infinity"
	case sameX && oppY:
		// opposite points: the point at infinity (0,0)
		msg = "AddUnified(p, -p) is the point at infinity (0,0)"
	case sameX:
		// doubling: lambda = 3 x^2 / 2 y
		lam.Mul(&x1, &x1)
		t.SetUint64(3)
		lam.Mul(&lam, &t)
		t.Add(&y1, &y1)
		t.Inverse(&t)
		lam.Mul(&lam, &t)
		wx.Mul(&lam, &lam).Sub(&wx, &x1).Sub(&wx, &x2)
		wy.Sub(&x1, &wx).Mul(&wy, &lam).Sub(&wy, &y1)
		msg = "AddUnified(p, p) is the tangent-rule double"
	default:
		// chord: lambda = (y2 - y1) / (x2 - x1)
		lam.Sub(&y2, &y1)
		t.Sub(&x2, &x1)
		t.Inverse(&t)
		lam.Mul(&lam, &t)
		wx.Mul(&lam, &lam).Sub(&wx, &x1).Sub(&wx, &x2)
		wy.Sub(&x1, &wx).Mul(&wy, &lam).Sub(&wy, &y1)
		msg = "AddUnified(p, q) is the chord-rule sum for points with distinct abscissas and p.y + q.y != 0"
		if oppY {
			msg = "AddUnified(p, q) is the chord-rule sum for points with distinct abscissas and p.y + q.y = 0"
		}
	}
	verifAssert(verifAnd(rx.Equal(&wx), ry.Equal(&wy)), msg)
	verifReach("add-unified")
}
