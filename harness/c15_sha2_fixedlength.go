package PKGNAME

// C15 harness (variable-length SHA-256): FixedLengthSum computes the padding IN the circuit, from
// the length variable: bounded comparators, IsEqual, Select, bit slicing, hints. The real code is
// executed against a frontend.API stand-in with the meaning of each call over a 101-bit modulus
// (values are concrete big integers evaluated by the real math/big; hints are the real hint
// functions; range checks and assertions are checked); the message bytes are SYMBOLIC and are only
// moved around by Select; the length is enumerated (every value 0..120 in the thorough tier, the
// block-boundary values in the quick tier). The compression function is a recording stand-in that
// returns a fresh marker state per call. For every length:
//   * the first ceil((L+9)/64) compression calls are chained from the seed and receive exactly the
//     blocks of the Merkle-Damgard padding of the first L message bytes (0x80, zeros, 64-bit
//     big-endian bit length)
//   * the digest handed back is the state after exactly that many blocks
//   * every assertion and range check the gadget emits holds (the honest prover is not rejected)
//verif:unwind 200000
//verif:init github.com/consensys/gnark/std/hash/sha2
//verif:summarize permutation/sha2.Permute verifSummary_Permute
//verif:summarize digest).unpackU8Digest verifSummary_unpack
//verif:replay interpreter

import (
	"math/big"

	"github.com/consensys/gnark/frontend"
	"github.com/consensys/gnark/std/math/uints"
)

type verifPermuteCall struct {
	in    [8]uints.U32
	block [64]uints.U8
}

var (
	verifCalls []verifPermuteCall
	verifFinal [8]uints.U32
	verifGot   bool
)

func verifMarker(k, j, b int) frontend.Variable {
	return verifV{big.NewInt(int64(100000*(k+1) + 4*j + b))}
}

func verifSummary_Permute(uapi *uints.BinaryField[uints.U32], currentHash [8]uints.U32, p [64]uints.U8) [8]uints.U32 {
	k := len(verifCalls)
	verifCalls = append(verifCalls, verifPermuteCall{currentHash, p})
	var out [8]uints.U32
	for j := range out {
		for b := 0; b < 4; b++ {
			out[j][b].Val = verifMarker(k, j, b)
		}
	}
	return out
}

func verifSummary_unpack(d *digest, dg [8]uints.U32) []uints.U8 {
	verifFinal, verifGot = dg, true
	return nil
}

func verifSameState(a, b [8]uints.U32) bool {
	for j := range a {
		for k := 0; k < 4; k++ {
			if verifBig(a[j][k].Val).Cmp(verifBig(b[j][k].Val)) != 0 {
				return false
			}
		}
	}
	return true
}

func verifHarness_fixedLengthSum() {
	const maxLen = 120
	lengths := []int{0, 1, 54, 55, 56, 57, 63, 64, 65, 119, 120} // the block boundaries
	if "TIERNAME" == "thorough" {
		lengths = nil
		for l := 0; l <= maxLen; l++ {
			lengths = append(lengths, l)
		}
	}
	L := lengths[verifChoose(len(lengths))]
	msg := make([]byte, maxLen)
	in := make([]uints.U8, maxLen)
	for i := range msg {
		msg[i] = verifNondetByte("msg")
		in[i] = uints.U8{Val: verifSym{msg[i]}}
	}
	eng := &verifEng{comp: &verifEngCompiler{}}
	d := &digest{api: eng, in: in}
	verifCalls, verifGot = nil, false
	d.FixedLengthSum(verifV{big.NewInt(int64(L))})
	verifAssert(verifGot, "a digest is returned")
	// reference: Merkle-Damgard padding of the first L bytes
	nBlocks := (L + 9 + 63) / 64
	verifAssert(len(verifCalls) >= nBlocks, "enough compression calls")
	if !verifGot || len(verifCalls) < nBlocks {
		return
	}
	total := 64 * nBlocks
	for k := 0; k < nBlocks; k++ {
		if k == 0 {
			verifAssert(verifSameState(verifCalls[0].in, func() [8]uints.U32 { var s [8]uints.U32; copy(s[:], _seed); return s }()), "the first block is compressed from the initial state")
		} else {
			var prev [8]uints.U32
			for j := range prev {
				for b := 0; b < 4; b++ {
					prev[j][b].Val = verifMarker(k-1, j, b)
				}
			}
			verifAssert(verifSameState(verifCalls[k].in, prev), "each block is compressed from the state after the previous one")
		}
		for i := 0; i < 64; i++ {
			pos := 64*k + i
			got := verifCalls[k].block[i].Val
			switch {
			case pos < L:
				s, ok := got.(verifSym)
				verifAssert(ok && s.b == msg[pos], "message bytes are compressed unchanged, in place")
			case pos == L:
				_, isSym := got.(verifSym)
				verifAssert(!isSym && verifBig(got).Cmp(big.NewInt(0x80)) == 0, "the byte after the message is 0x80")
			case pos < total-8:
				_, isSym := got.(verifSym)
				verifAssert(!isSym && verifBig(got).Sign() == 0, "zero padding up to the length field")
			default:
				shift := uint(8 * (total - 1 - pos))
				want := (uint64(8*L) >> shift) & 0xff
				_, isSym := got.(verifSym)
				verifAssert(!isSym && verifBig(got).Cmp(new(big.Int).SetUint64(want)) == 0, "the last 8 bytes of the last block are the big-endian bit length")
			}
		}
	}
	var want [8]uints.U32
	for j := range want {
		for b := 0; b < 4; b++ {
			want[j][b].Val = verifMarker(nBlocks-1, j, b)
		}
	}
	verifAssert(verifSameState(verifFinal, want), "the digest is the state after exactly ceil((L+9)/64) blocks")
	verifReach("fixed-length-sum")
}
