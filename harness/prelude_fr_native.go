package PKGNAME

import (
	"math/big"
	"strings"

	fr "FRPKG"
)

// verifNondetFr maps the solver's rational value (algebra model) into the real field: num * den^-1
func verifNondetFr(name string) fr.Element {
	s := verifNext()
	r, ok := verifParseRat(s)
	if !ok {
		panic("replay: cannot map value into the field: " + s)
	}
	var n, d, e fr.Element
	n.SetBigInt(r.Num())
	d.SetBigInt(r.Denom())
	e.Div(&n, &d)
	return e
}

func verifParseRat(s string) (*big.Rat, bool) {
	s = strings.TrimSpace(s)
	if strings.HasPrefix(s, "#x") || strings.HasPrefix(s, "#b") {
		return new(big.Rat).SetInt(new(big.Int).SetUint64(verifParseBV(s))), true
	}
	if strings.HasPrefix(s, "(- ") && strings.HasSuffix(s, ")") {
		r, ok := verifParseRat(s[3 : len(s)-1])
		if !ok {
			return nil, false
		}
		return r.Neg(r), true
	}
	if strings.HasPrefix(s, "(/ ") && strings.HasSuffix(s, ")") {
		parts := strings.Fields(s[3 : len(s)-1])
		if len(parts) != 2 {
			return nil, false
		}
		a, ok1 := verifParseRat(parts[0])
		b, ok2 := verifParseRat(parts[1])
		if !ok1 || !ok2 || b.Sign() == 0 {
			return nil, false
		}
		return a.Quo(a, b), true
	}
	r, ok := new(big.Rat).SetString(strings.TrimSuffix(s, ".0"))
	return r, ok
}
