package PKGNAME

// C15 harness (padding only): MDPADFN of the SHA-2 / RIPEMD-160 gadgets. For EVERY message length
// 0..137 (two blocks + 9; the slice length has to be concrete, so lengths are enumerated by the
// executor) and SYMBOLIC message bytes, the padded stream is msg || 0x80 || 0.. || 64-bit length
// (ENDIAN), a whole number of 64-byte blocks, minimal, and the message bytes are untouched.
// Both capacity regimes of the input buffer are covered (first call / room already reserved).
//verif:unwind 3000

import "github.com/consensys/gnark/std/math/uints"

func verifU8Is(u uints.U8, b byte) bool {
	v, ok := u.Val.(uint8)
	return ok && v == b
}

func verifHarness_padded() {
	L := verifChoose(138)
	extraCap := 80 * verifChoose(2)
	d := &digest{}
	d.in = make([]uints.U8, L, L+extraCap)
	msg := make([]byte, L)
	for i := range msg {
		msg[i] = verifNondetByte("m")
		d.in[i] = uints.U8{Val: msg[i]}
	}
	p := d.padded(L)
	verifAssert(len(p)%64 == 0, "padded length is a whole number of blocks")
	verifAssert(len(p) >= L+9 && len(p) < L+9+64, "padding is minimal")
	for i := 0; i < L && i < len(p); i++ {
		verifAssert(p[i].Val == d.in[i].Val, "message bytes are kept in place")
	}
	if len(p) >= L+9 {
		verifAssert(verifU8Is(p[L], 0x80), "first padding byte is 0x80")
		for i := L + 1; i < len(p)-8; i++ {
			verifAssert(verifU8Is(p[i], 0), "zero padding")
		}
		bits := uint64(8 * L)
		for k := 0; k < 8; k++ {
			var want byte
			if BIGENDIAN {
				want = byte(bits >> (8 * uint(7-k)))
			} else {
				want = byte(bits >> (8 * uint(k)))
			}
			verifAssert(verifU8Is(p[len(p)-8+k], want), "length field is the bit length of the message in the right byte order")
		}
	}
	verifReach("padded")
}
