package PKGNAME

import fr "FRPKG"

func verifNondetFr(name string) fr.Element { return fr.Element{} }
