package PKGNAME

// C02 harness (key structure): buildPermutation on sparse systems with symbolic wiring.
// For every system with nbPublic 0..2, nbGates 0..2, domain size 4 (12 positions), wires
// symbolic in [0,4): S sends every position to the previous position holding the same wire,
// and the first one to the last one. Hence S is a bijection, it preserves the wire of each
// position, and its cycles are exactly the classes of equal wires (public placeholder rows and
// padding rows included).
//verif:unwind 2000

import (
	"github.com/consensys/gnark-crypto/ecc/CURVE/fr"
	"github.com/consensys/gnark-crypto/ecc/CURVE/fr/iop"
	"github.com/consensys/gnark/constraint"
	cs "github.com/consensys/gnark/constraint/CURVE"
)

const verifSize = 4
const verifNbVars = 4

func verifHarness_buildPermutation() {
	nbPublic := verifChoose(3)
	nbGates := verifChoose(3)
	if nbPublic+nbGates > verifSize {
		verifAssume(false)
	}
	spr := &cs.SparseR1CS{}
	spr.Type = constraint.SystemSparseR1CS
	spr.Public = make([]string, nbPublic)
	spr.Blueprints = []constraint.Blueprint{&constraint.BlueprintGenericSparseR1C[constraint.U64]{}}
	lro := make([]int, 3*verifSize)
	for i := 0; i < nbPublic; i++ {
		lro[i] = i
	}
	for j := 0; j < nbGates; j++ {
		xa, xb, xc := verifNondetU32("xa"), verifNondetU32("xb"), verifNondetU32("xc")
		verifAssume(xa < verifNbVars)
		verifAssume(xb < verifNbVars)
		verifAssume(xc < verifNbVars)
		start := uint64(len(spr.CallData))
		spr.CallData = append(spr.CallData, xa, xb, xc, 1, 1, 1, 0, 0, 0)
		spr.Instructions = append(spr.Instructions, constraint.PackedInstruction{BlueprintID: 0, StartCallData: start})
		lro[nbPublic+j] = int(xa)
		lro[verifSize+nbPublic+j] = int(xb)
		lro[2*verifSize+nbPublic+j] = int(xc)
	}
	coeffs := make([]fr.Element, verifSize)
	trace := &Trace{Ql: iop.NewPolynomial(&coeffs, iop.Form{Basis: iop.Lagrange, Layout: iop.Regular})}

	buildPermutation(spr, trace, verifNbVars)

	S := trace.S
	verifAssert(len(S) == 3*verifSize, "the permutation acts on 3*size positions")
	for i := 0; i < 3*verifSize && i < len(S); i++ {
		// reference: previous position holding the same wire, else the last such position
		want := -1
		for j := 0; j < i; j++ {
			want = verifIteInt(lro[j] == lro[i], j, want)
		}
		last := i
		for j := i + 1; j < 3*verifSize; j++ {
			last = verifIteInt(lro[j] == lro[i], j, last)
		}
		want = verifIteInt(want == -1, last, want)
		verifAssert(S[i] == int64(want), "S[i] is the previous position of the same wire (the last one for the first occurrence)")
	}
	verifReach("perm")
}
