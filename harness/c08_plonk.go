package PKGNAME

// C08 / C02 harness: PLONK Verify on proofs and keys of arbitrary *shape*: number of public
// inputs, BSB22 commitments in the proof, Qcp / commitment indexes in the key (equal lengths:
// Setup invariant), number of claimed values in the batched opening proof. Group operations,
// pairings, transcripts, KZG folding and predicates are opaque stubs (every outcome explored);
// field arithmetic is the algebra model.
//
//  * no path may panic (C08)
//  * accept => #BSB22 commitments == len(vk.Qcp), witness length == NbPublicVariables,
//              #claimed values == 6 + len(vk.Qcp)
//verif:unwind 300
//verif:init PLONKPKG
//verif:replay interpreter

import (
	"CURVEPKG/fr"
	"CURVEPKG/kzg"
)

func verifHarness_plonkVerifyShapes() {
	nPub := verifChoose(3)     // vk.NbPublicVariables 0..2
	nW := verifChoose(3)       // len(publicWitness)
	nQcp := verifChoose(3)     // len(vk.Qcp) == len(vk.CommitmentConstraintIndexes)
	nBsb := verifChoose(3)     // len(proof.Bsb22Commitments)
	nClaimed := verifChoose(10) // len(proof.BatchedProof.ClaimedValues) 0..9
	extraCap := verifChoose(2) // spare capacity behind proof.Bsb22Commitments (Verify appends to it)
	vk := &VerifyingKey{NbPublicVariables: uint64(nPub), Size: 8}
	vk.Qcp = make([]kzg.Digest, nQcp)
	vk.CommitmentConstraintIndexes = make([]uint64, nQcp)
	for i := range vk.CommitmentConstraintIndexes {
		vk.CommitmentConstraintIndexes[i] = verifNondetU64("cci")
		verifAssume(vk.CommitmentConstraintIndexes[i] < 8)
	}
	vk.SizeInv = verifNondetFr("sizeInv")
	vk.Generator = verifNondetFr("omega")
	vk.CosetShift = verifNondetFr("u")
	proof := &Proof{}
	proof.Bsb22Commitments = make([]kzg.Digest, nBsb, nBsb+10*extraCap)
	proof.BatchedProof.ClaimedValues = make([]fr.Element, nClaimed)
	for i := range proof.BatchedProof.ClaimedValues {
		proof.BatchedProof.ClaimedValues[i] = verifNondetFr("claimed")
	}
	proof.ZShiftedOpening.ClaimedValue = verifNondetFr("zu")
	w := make(fr.Vector, nW)
	for i := range w {
		w[i] = verifNondetFr("pub")
	}
	err := Verify(proof, vk, w)
	if err == nil {
		verifAssert(nBsb == nQcp, "accept => number of BSB22 commitments equals the key's")
		verifAssert(nW == nPub, "accept => witness length equals the key's number of public inputs")
		verifAssert(nClaimed == 6+nQcp, "accept => the batched proof claims 6 + #qcp values")
		verifReach("accept")
	} else {
		verifReach("reject")
	}
}
