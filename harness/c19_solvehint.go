package PKGNAME

import (
	"math/big"

	"FRPKG"
	"github.com/consensys/gnark/constraint"
)

// C19 harness: the GKR solving hint (GkrSolveHint) evaluates the sub-circuit natively. On the
// circuit x, y inputs, z = x*y with 4 instances in solving order and 0..2 series dependencies on
// x (symbolic instances; Compile's contract assumed: listed by increasing input instance, source
// instance earlier), for ALL field values of the explicit inputs the outputs handed back are the
// direct evaluation z[i] = x[i]*y[i], with x[i] = z[source] for a dependent instance and the next
// explicit value otherwise.
//verif:unwind 600
//verif:symindex 0
//verif:init github.com/consensys/gnark/internal/gkr/GKRCURVE
//verif:replay interpreter

func verifHarness_gkrSolveHint() {
	const n = 4
	nbDeps := verifChoose(3)
	deps := make([]constraint.InputDependency, nbDeps)
	for k := range deps {
		in, out := verifNondetInt("in"), verifNondetInt("out")
		verifAssume(verifAnd(in >= 1, in < n))
		verifAssume(verifAnd(out >= 0, out < in))
		if k > 0 {
			verifAssume(deps[k-1].InputInstance < in)
		}
		deps[k] = constraint.InputDependency{OutputWire: 2, OutputInstance: out, InputInstance: in}
	}
	info := constraint.GkrInfo{
		Circuit: constraint.GkrCircuit{
			{Dependencies: deps, NbUniqueOutputs: 1},
			{NbUniqueOutputs: 1},
			{Gate: "mul2", Inputs: []int{0, 1}},
		},
		MaxNIns:     2,
		NbInstances: n,
	}
	// hint inputs: the explicit values of x in solving order, then those of y
	vals := make([]fr.Element, 2*n-nbDeps)
	ins := make([]*big.Int, len(vals))
	for k := range vals {
		vals[k] = verifNondetFr("in")
		ins[k] = new(big.Int)
		vals[k].BigInt(ins[k])
	}
	outs := make([]*big.Int, n)
	for k := range outs {
		outs[k] = new(big.Int)
	}
	var data GkrSolvingData
	err := GkrSolveHint(info, &data)(nil, ins, outs)
	verifAssert(err == nil, "the solving hint succeeds")
	if err != nil {
		return
	}
	// reference: direct evaluation
	var z [n]fr.Element
	next := 0
	for i := 0; i < n; i++ {
		var x fr.Element
		isDep := false
		for k := range deps {
			if deps[k].InputInstance == i {
				x = z[deps[k].OutputInstance]
				isDep = true
			}
		}
		if !isDep {
			x = vals[next]
			next++
		}
		z[i].Mul(&x, &vals[n-nbDeps+i])
		var got fr.Element
		got.SetBigInt(outs[i])
		verifAssert(got.Equal(&z[i]), "the solving hint returns the direct evaluation of the gate on each instance's own inputs")
	}
	verifReach("solve-hint")
}
