package PKGNAME

// C06 harnesses, R1CS side: computeTerm / accumulateInto / divByCoeff / solveR1C
// of the per-field solver (generated copies: run on every constraint/<field> package).
//
// Pre-state is arbitrary: symbolic values, symbolic solved flags, coefficient
// table = the 5 fixed ids (built by the real newCoeffTable) + 2 symbolic entries.
//verif:unwind 400
//verif:symindex 0
//verif:summarize solver).accumulateInto verifSummary_accumulateInto
//verif:summarize solver).computeTerm verifSummary_computeTerm
//verif:summarize solver).divByCoeff verifSummary_divByCoeff

import (
	"errors"
	"math"
	"math/big"

	"github.com/consensys/gnark/constraint"
	csolver "github.com/consensys/gnark/constraint/solver"
	fr "FRPKG"
)

const verifNbWires = 3
const verifNbCoeffs = 7

func verifMkSolver(tp constraint.SystemType, nbConstraints int) *solver {
	cs := &system{}
	cs.Type = tp
	cs.CoeffTable = newCoeffTable(2)
	cs.Coefficients = append(cs.Coefficients, verifNondetFr("coeff5"), verifNondetFr("coeff6"))
	s := &solver{system: cs}
	s.values = make([]fr.Element, verifNbWires)
	s.solved = make([]bool, verifNbWires)
	for i := 0; i < verifNbWires; i++ {
		s.values[i] = verifNondetFr("value")
		s.solved[i] = verifNondetBool("solved")
	}
	s.a = make(fr.Vector, nbConstraints)
	s.b = make(fr.Vector, nbConstraints)
	s.c = make(fr.Vector, nbConstraints)
	return s
}

func verifTerm(name string) constraint.Term {
	t := constraint.Term{CID: verifNondetU32(name + ".cid"), VID: verifNondetU32(name + ".vid")}
	verifAssume(t.CID < verifNbCoeffs)
	verifAssume(t.VID < verifNbWires)
	return t
}

// reference evaluation of a term under the solver's current values: coeff * value
func verifEvalTerm(s *solver, t constraint.Term) fr.Element {
	var r fr.Element
	r.Mul(&s.Coefficients[t.CID], &s.values[t.VID])
	return r
}

func verifEvalLE(s *solver, l constraint.LinearExpression) fr.Element {
	var r fr.Element
	for _, t := range l {
		e := verifEvalTerm(s, t)
		r.Add(&r, &e)
	}
	return r
}

// ---- summaries: specification-level stand-ins for the three leaf functions. Each is proved
// equal to the real function (for every coefficient id incl. the fast paths, every wire, every
// value) by the _nosummary_ harness below; the other harnesses then run against the summaries.

func verifSummary_computeTerm(s *solver, t constraint.Term) fr.Element {
	if t.CID != 0 && !s.solved[t.VID] {
		panic("computing a term with an unsolved wire")
	}
	return verifEvalTerm(s, t)
}

func verifSummary_accumulateInto(s *solver, t constraint.Term, r *fr.Element) {
	e := verifEvalTerm(s, t)
	r.Add(r, &e)
}

func verifSummary_divByCoeff(s *solver, res *fr.Element, cID uint32) {
	if cID == constraint.CoeffIdZero {
		panic("division by 0")
	}
	res.Div(res, &s.Coefficients[cID])
}

func verifHarness_nosummary_computeTerm() {
	s := verifMkSolver(constraint.SystemR1CS, 1)
	t := verifTerm("t")
	verifAssume(verifOr(t.CID == 0, s.solved[t.VID]))
	got := s.computeTerm(t)
	want := verifSummary_computeTerm(s, t)
	verifAssert(got.Equal(&want), "computeTerm = coeff*value")
	verifReach("computeTerm")
}

func verifHarness_nosummary_computeTerm_unsolved() {
	s := verifMkSolver(constraint.SystemR1CS, 1)
	t := verifTerm("t")
	verifAssume(verifAnd(t.CID != 0, !s.solved[t.VID]))
	defer func() {
		verifAssert(recover() != nil, "computeTerm panics on an unsolved wire with a non-zero coefficient id")
		verifReach("computeTerm-panic")
	}()
	s.computeTerm(t)
	verifAssert(false, "computeTerm must not return for an unsolved wire")
}

func verifHarness_nosummary_accumulateInto() {
	s := verifMkSolver(constraint.SystemR1CS, 1)
	t := verifTerm("t")
	r := verifNondetFr("acc")
	want := r
	verifSummary_accumulateInto(s, t, &want)
	s.accumulateInto(t, &r)
	verifAssert(r.Equal(&want), "accumulateInto adds coeff*value")
	verifReach("accumulateInto")
}

func verifHarness_nosummary_divByCoeff() {
	s := verifMkSolver(constraint.SystemR1CS, 1)
	cid := verifNondetU32("cid")
	verifAssume(cid < verifNbCoeffs)
	verifAssume(cid != constraint.CoeffIdZero)
	r := verifNondetFr("r")
	want := r
	verifSummary_divByCoeff(s, &want, cid)
	s.divByCoeff(&r, cid)
	verifAssert(r.Equal(&want), "divByCoeff divides by the coefficient")
	verifReach("divByCoeff")
}

// terms of the rows handed to solveR1C: the wire id is symbolic, the coefficient id is one of
// the generic table entries whose VALUE is symbolic (any field element, 0 / 1 / -1 included);
// the coefficient-id fast paths are covered by the summaries' own harnesses.
var verifNextCID uint32

func verifLE(name string, n int) constraint.LinearExpression {
	l := make(constraint.LinearExpression, n)
	for i := range l {
		l[i] = constraint.Term{CID: verifNextCID, VID: verifNondetU32(name + ".vid")}
		verifAssume(l[i].VID < verifNbWires)
		verifNextCID++
	}
	return l
}

// solveR1C with |L|,|R|,|O| terms: nil => row holds on the post-state, a/b/c are the
// evaluations of L/R/O, at most the one unsolved wire changed; error => no value of
// the unsolved wire satisfies the row. (harness logic is branch-free: verifAnd/verifOr)
func verifSolveR1C(nl, nr, no int) {
	s := verifMkSolver(constraint.SystemR1CS, 1)
	verifNextCID = 5
	for k := 0; k < nl+nr+no-2; k++ {
		s.Coefficients = append(s.Coefficients, verifNondetFr("coeffN"))
	}
	r := constraint.R1C{L: verifLE("L", nl), R: verifLE("R", nr), O: verifLE("O", no)}
	var terms []constraint.Term
	terms = append(terms, r.L...)
	terms = append(terms, r.R...)
	terms = append(terms, r.O...)
	// level-builder contract: at most one unsolved wire in the row; frontend contract: it occurs
	// in exactly one term, with a non-zero coefficient
	nbUnsolved := 0
	unsolved := 0
	for w := 0; w < verifNbWires; w++ {
		used := false
		for _, t := range terms {
			used = verifOr(used, int(t.VID) == w)
		}
		isU := verifAnd(used, !s.solved[w])
		nbUnsolved += verifB2I(isU)
		unsolved += w * verifB2I(isU)
	}
	verifAssume(nbUnsolved <= 1)
	hasUnsolved := nbUnsolved == 1
	occ := 0
	for _, t := range terms {
		isIt := verifAnd(hasUnsolved, int(t.VID) == unsolved)
		occ += verifB2I(isIt)
		verifAssume(verifImplies(isIt, !s.Coefficients[t.CID].IsZero()))
	}
	verifAssume(occ <= 1)
	pre := make([]fr.Element, verifNbWires)
	copy(pre, s.values)
	preSolved := make([]bool, verifNbWires)
	copy(preSolved, s.solved)

	err := s.solveR1C(0, &r)

	for w := 0; w < verifNbWires; w++ {
		other := !verifAnd(hasUnsolved, unsolved == w)
		verifAssert(verifImplies(other, s.values[w].Equal(&pre[w])), "solveR1C leaves other wires alone")
		verifAssert(verifImplies(other, s.solved[w] == preSolved[w]), "solveR1C leaves other solved flags alone")
	}
	if err == nil {
		verifAssert(verifImplies(hasUnsolved, s.solved[unsolved]), "the unsolved wire is marked solved")
		a, b, c := verifEvalLE(s, r.L), verifEvalLE(s, r.R), verifEvalLE(s, r.O)
		var ab fr.Element
		ab.Mul(&a, &b)
		verifAssert(ab.Equal(&c), "nil => L*R == O on the post-state")
		verifAssert(s.a[0].Equal(&a), "a[cID] == eval(L)")
		verifAssert(s.b[0].Equal(&b), "b[cID] == eval(R)")
		verifAssert(s.c[0].Equal(&c), "c[cID] == eval(O)")
		verifReach("solveR1C-ok")
	} else {
		// the row must be unsatisfiable for EVERY value of the unsolved wire
		any := verifNondetFr("anyvalue")
		for w := 0; w < verifNbWires; w++ {
			if verifAnd(hasUnsolved, unsolved == w) {
				s.values[w] = any
			}
		}
		a, b, c := verifEvalLE(s, r.L), verifEvalLE(s, r.R), verifEvalLE(s, r.O)
		var ab fr.Element
		ab.Mul(&a, &b)
		verifAssert(!ab.Equal(&c), "error => the row is violated whatever the unsolved wire is")
		verifReach("solveR1C-err")
	}
}

func verifHarness_solveR1C_111() { verifSolveR1C(1, 1, 1) }
func verifHarness_solveR1C_211() { verifSolveR1C(2, 1, 1) }
func verifHarness_solveR1C_121() { verifSolveR1C(1, 2, 1) }
func verifHarness_solveR1C_112() { verifSolveR1C(1, 1, 2) }
func verifHarness_solveR1C_011() { verifSolveR1C(0, 1, 1) }
func verifHarness_solveR1C_110() { verifSolveR1C(1, 1, 0) }


// solveWithHint: the hint function receives exactly the values of its input expressions
// (constant terms included) and its outputs land on the wires of the output range; an error of
// the hint is an error of the solver; a missing hint function is an error.
var (
	verifHintIns []fr.Element
	verifHintOut fr.Element
	verifHintErr bool
)

func verifHintFn(q *big.Int, ins, outs []*big.Int) error {
	verifHintIns = nil
	for _, b := range ins {
		var e fr.Element
		e.SetBigInt(b)
		verifHintIns = append(verifHintIns, e)
	}
	verifHintOut.BigInt(outs[0])
	if verifHintErr {
		return errors.New("hint failed")
	}
	return nil
}

func verifHarness_solveWithHint() {
	s := verifMkSolver(constraint.SystemR1CS, 1)
	s.q = big.NewInt(0)
	// coefficient ids are fixed (the two symbolic table entries 5, 6 and the constant 2: the per-id
	// fast paths are the subject of the accumulateInto harness), wire ids are symbolic
	t0, t1, t2 := verifTerm("t0"), verifTerm("t1"), verifTerm("t2")
	t0.CID, t1.CID, t2.CID = 5, 6, 2
	kc := uint32(6)
	// contract (level builder): inputs are solved wires, the output wire is not and is not an input
	for _, t := range []constraint.Term{t0, t1, t2} {
		verifAssume(t.VID < 2)
		verifAssume(s.solved[t.VID])
	}
	verifAssume(!s.solved[2])
	pre := append([]fr.Element{}, s.values...)
	h := &constraint.HintMapping{HintID: 7,
		Inputs:      []constraint.LinearExpression{{t0, constraint.Term{CID: kc, VID: math.MaxUint32}}, {t1, t2}},
		OutputRange: struct{ Start, End uint32 }{2, 3}}
	s.mHintsFunctions = map[csolver.HintID]csolver.Hint{7: verifHintFn}
	verifHintOut = verifNondetFr("hint.out")
	verifHintErr = verifNondetBool("hint.fails")
	err := s.solveWithHint(h)
	verifAssert((err != nil) == verifHintErr, "the solver fails exactly when the hint function fails")
	verifAssert(len(verifHintIns) == 2, "the hint receives one value per input expression")
	if len(verifHintIns) == 2 {
		var want0, want1, e fr.Element
		e.Mul(&s.Coefficients[t0.CID], &pre[t0.VID])
		want0.Add(&e, &s.Coefficients[kc])
		e.Mul(&s.Coefficients[t1.CID], &pre[t1.VID])
		want1.Set(&e)
		e.Mul(&s.Coefficients[t2.CID], &pre[t2.VID])
		want1.Add(&want1, &e)
		verifAssert(verifHintIns[0].Equal(&want0), "a hint input is the value of its linear expression, constant term included")
		verifAssert(verifHintIns[1].Equal(&want1), "a hint input is the value of its linear expression")
	}
	if err == nil {
		verifAssert(s.solved[2] && s.values[2].Equal(&verifHintOut), "the hint's output lands on the wire of the output range")
	}
	verifAssert(s.values[0].Equal(&pre[0]) && s.values[1].Equal(&pre[1]), "input wires are left alone")
	// a hint id without a function
	h.HintID = 8
	s2 := verifMkSolver(constraint.SystemR1CS, 1)
	s2.mHintsFunctions = s.mHintsFunctions
	verifAssert(s2.solveWithHint(h) != nil, "a missing hint function is an error")
	verifReach("solve-with-hint")
}

// processInstruction on a hint instruction (the real BlueprintGenericHint, real calldata produced by CompressHint, real
// PackedInstruction.Unpack): whatever the hint function does - returns, fails, or PANICS (a user-supplied hint that
// dereferences nil on an input it did not expect) - processInstruction never reports success while the output wire is
// left unsolved: a panic either propagates or becomes an error (added after seed C06-4).
var verifHintPanics bool

func verifHintFnMayPanic(q *big.Int, ins, outs []*big.Int) error {
	if verifHintPanics {
		panic("hint function panics")
	}
	return verifHintFn(q, ins, outs)
}

func verifHarness_processInstructionHint() {
	s := verifMkSolver(constraint.SystemR1CS, 1)
	s.q = big.NewInt(0)
	verifAssume(s.solved[0])
	verifAssume(s.solved[1])
	verifAssume(!s.solved[2])
	h := constraint.HintMapping{HintID: 7,
		Inputs:      []constraint.LinearExpression{{constraint.Term{CID: 5, VID: 0}}, {constraint.Term{CID: 6, VID: 1}}},
		OutputRange: struct{ Start, End uint32 }{2, 3}}
	bp := &constraint.BlueprintGenericHint{}
	s.Blueprints = []constraint.Blueprint{bp}
	bp.CompressHint(h, &s.CallData)
	pi := constraint.PackedInstruction{BlueprintID: 0, ConstraintOffset: 0, WireOffset: 2, StartCallData: 0}
	s.mHintsFunctions = map[csolver.HintID]csolver.Hint{7: verifHintFnMayPanic}
	verifHintOut = verifNondetFr("hint.out")
	verifHintErr = verifNondetBool("hint.fails")
	verifHintPanics = verifNondetBool("hint.panics")
	var sc scratch
	panicked := false
	var err error
	func() {
		defer func() {
			if r := recover(); r != nil {
				panicked = true
			}
		}()
		err = s.processInstruction(pi, &sc)
	}()
	if !panicked && err == nil {
		verifAssert(s.solved[2], "processInstruction reports success only when the instruction's output wire is solved")
		verifAssert(!verifHintPanics && !verifHintErr, "processInstruction reports success only when the hint function returned normally")
		verifAssert(s.values[2].Equal(&verifHintOut), "the hint's output lands on the output wire")
	}
	verifReach("process-instruction-hint")
}
