package PKGNAME

// C03 harness (prover kernel): filterHeap removes, from the wire-value slice fed to the Krs
// multi-exponentiation, exactly the entries whose global index is in toRemove (duplicates
// allowed, any order), keeps the order of the others, and returns the slice itself when nothing
// is to be removed. len(slice) 0..4, first index symbolic offset 0..3, toRemove of 0..3
// symbolic indices (possibly outside the slice's index range).
//verif:unwind 600

import "FRPKG"

func verifHarness_filterHeap() {
	n := verifChoose(5)
	m := verifChoose(4)
	first := verifChoose(4)
	slice := make([]fr.Element, n)
	orig := make([]fr.Element, n)
	for i := range slice {
		slice[i] = verifNondetFr("v")
		orig[i] = slice[i]
	}
	toRemove := make([]int, m)
	rm := make([]int, m)
	for i := range toRemove {
		toRemove[i] = verifNondetInt("idx")
		// caller contract (Prove): the indices are those of private / internal wires, i.e. not below the
		// slice's first index (an index below it would sit on top of the heap forever)
		verifAssume(verifAnd(toRemove[i] >= first, toRemove[i] < 8))
		rm[i] = toRemove[i]
	}
	r := filterHeap(slice, first, toRemove)
	// reference: keep i iff first+i is not in rm
	k := 0
	for i := 0; i < n; i++ {
		removed := false
		for j := 0; j < m; j++ {
			removed = verifOr(removed, rm[j] == first+i)
		}
		if removed {
			continue
		}
		if k < len(r) {
			verifAssert(r[k].Equal(&orig[i]), "kept entries appear in order with their values")
		} else {
			verifAssert(false, "an entry that must be kept is missing")
		}
		k++
	}
	verifAssert(len(r) == k, "exactly the listed indices are removed")
	verifReach("filterHeap")
}
