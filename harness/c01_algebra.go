package PKGNAME

// C01 harness, generic-group (algebra) model: group elements are their discrete logarithms,
// MultiExp is a dot product, a pairing is a product, products in GT are sums (see
// engine/gosym/algebra.go). For a key WITHOUT commitments, 1..4 entries in vk.G1.K and the
// matching witness, with every group element and every public input symbolic:
//
//    Verify accepts  <=>  e = Krs*(-delta) + Ar*Bs + (K[0] + sum_i w_i*K[i+1]) * (-gamma)
//
// i.e. the value compared with vk.e is exactly the reference pairing product: every public input
// enters with its own K, K[0] is included, nothing else is, the operands are not swapped.
//verif:unwind 300
//verif:init GROTHPKG
//verif:crypto algebra
//verif:replay interpreter

import (
	curve "CURVEPKG"
	"CURVEPKG/fr"
)

func verifNondetG1(name string) curve.G1Affine { return curve.G1Affine{} }
func verifNondetG2(name string) curve.G2Affine { return curve.G2Affine{} }
func verifNondetGT(name string) curve.GT       { return curve.GT{} }
func verifDlog(p any) fr.Element               { return fr.Element{} }

func verifHarness_groth16PairingEquation() {
	nK := 1 + verifChoose(4)
	proof := &Proof{Ar: verifNondetG1("Ar"), Krs: verifNondetG1("Krs"), Bs: verifNondetG2("Bs")}
	vk := &VerifyingKey{}
	vk.G1.K = make([]curve.G1Affine, nK)
	for i := range vk.G1.K {
		vk.G1.K[i] = verifNondetG1("K")
	}
	vk.G2.deltaNeg = verifNondetG2("deltaNeg")
	vk.G2.gammaNeg = verifNondetG2("gammaNeg")
	vk.e = verifNondetGT("e")
	w := make(fr.Vector, nK-1)
	for i := range w {
		w[i] = verifNondetFr("w")
	}
	// reference, computed on the logarithms
	krs, ar, bs := verifDlog(&proof.Krs), verifDlog(&proof.Ar), verifDlog(&proof.Bs)
	dn, gn, e := verifDlog(&vk.G2.deltaNeg), verifDlog(&vk.G2.gammaNeg), verifDlog(&vk.e)
	k0 := verifDlog(&vk.G1.K[0])
	ksum := k0
	for i := range w {
		ki := verifDlog(&vk.G1.K[i+1])
		var t fr.Element
		t.Mul(&w[i], &ki)
		ksum.Add(&ksum, &t)
	}
	var ref, t fr.Element
	ref.Mul(&krs, &dn)
	t.Mul(&ar, &bs)
	ref.Add(&ref, &t)
	t.Mul(&ksum, &gn)
	ref.Add(&ref, &t)

	err := Verify(proof, vk, w)
	if err == nil {
		verifAssert(ref.Equal(&e), "accept => vk.e equals the reference pairing product of the proof and the stated public inputs")
		verifReach("accept")
	} else {
		verifAssert(!ref.Equal(&e), "reject (of a structurally valid proof) => the reference pairing equation does not hold")
		verifReach("reject")
	}
}
