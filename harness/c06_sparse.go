package PKGNAME

// C06 harnesses, sparse side (package constraint, generic blueprints instantiated at U32):
// BlueprintGenericSparseR1C.Solve / checkConstraint and the specialised Add / Mul / Bool
// blueprints, against an abstract Solver whose state (values, solved flags, coefficients)
// is symbolic. Post-condition is always stated on the DECOMPRESSED gate, i.e. the form the
// PLONK backend reads:  qL*xa + qR*xb + qO*xc + qM*xa*xb + qC == 0.
//verif:unwind 400
//verif:symindex 0
//verif:init github.com/consensys/gnark/constraint

import "math/big"

const verifNbWires = 3

type verifSolver struct {
	values []ELEMTYPE
	solved []bool
	coeffs []ELEMTYPE
	nbSet  int
	lastSet uint32
}

func (s *verifSolver) FromInterface(interface{}) ELEMTYPE { panic("unused") }
func (s *verifSolver) ToBigInt(ELEMTYPE) *big.Int         { panic("unused") }
func (s *verifSolver) Mul(a, b ELEMTYPE) ELEMTYPE         { return verifFMul(a, b) }
func (s *verifSolver) Add(a, b ELEMTYPE) ELEMTYPE         { return verifFAdd(a, b) }
func (s *verifSolver) Sub(a, b ELEMTYPE) ELEMTYPE         { return verifFSub(a, b) }
func (s *verifSolver) Neg(a ELEMTYPE) ELEMTYPE            { return verifFNeg(a) }
func (s *verifSolver) Inverse(a ELEMTYPE) (ELEMTYPE, bool) {
	if verifFIsZero(a) {
		return a, false
	}
	return verifFInv(a), true
}
func (s *verifSolver) One() ELEMTYPE                 { return verifFConst(1) }
func (s *verifSolver) IsOne(a ELEMTYPE) bool         { return verifFEq(a, verifFConst(1)) }
func (s *verifSolver) String(ELEMTYPE) string        { return "<e>" }
func (s *verifSolver) Uint64(a ELEMTYPE) (uint64, bool) { return verifFToU64(a) }
func (s *verifSolver) GetValue(cID, vID uint32) ELEMTYPE {
	// contract of the real solvers' computeTerm (checked by the R1CS-side harness)
	if cID != 0 && !s.solved[vID] {
		panic("computing a term with an unsolved wire")
	}
	return verifFMul(s.coeffs[cID], s.values[vID])
}
func (s *verifSolver) GetCoeff(cID uint32) ELEMTYPE { return s.coeffs[cID] }
func (s *verifSolver) SetValue(vID uint32, f ELEMTYPE) {
	if s.solved[vID] {
		panic("solving the same wire twice should never happen.")
	}
	s.values[vID] = f
	s.solved[vID] = true
	s.nbSet++
	s.lastSet = vID
}
func (s *verifSolver) IsSolved(vID uint32) bool { return s.solved[vID] }
func (s *verifSolver) Read(calldata []uint32) (ELEMTYPE, int) {
	return s.GetValue(calldata[1], calldata[2]), 3
}

// coefficient table: fixed ids 0..4 (0, 1, 2, -1, -2) + nb symbolic entries
func verifMkSolver(nb int) *verifSolver {
	s := &verifSolver{}
	s.coeffs = []ELEMTYPE{verifFConst(0), verifFConst(1), verifFConst(2), verifFConst(-1), verifFConst(-2)}
	for i := 0; i < nb; i++ {
		s.coeffs = append(s.coeffs, verifNondetElem("coeff"))
	}
	s.values = make([]ELEMTYPE, verifNbWires)
	s.solved = make([]bool, verifNbWires)
	for i := 0; i < verifNbWires; i++ {
		s.values[i] = verifNondetElem("value")
		s.solved[i] = verifNondetBool("solved")
	}
	return s
}

func verifWire(name string) uint32 {
	w := verifNondetU32(name)
	verifAssume(w < verifNbWires)
	return w
}

// value of the decompressed gate under the solver's current values
func verifGate(s *verifSolver, c *SparseR1C) ELEMTYPE {
	t := verifFMul(s.coeffs[c.QL], s.values[c.XA])
	t = verifFAdd(t, verifFMul(s.coeffs[c.QR], s.values[c.XB]))
	t = verifFAdd(t, verifFMul(s.coeffs[c.QO], s.values[c.XC]))
	t = verifFAdd(t, verifFMul(s.coeffs[c.QM], verifFMul(s.values[c.XA], s.values[c.XB])))
	return verifFAdd(t, s.coeffs[c.QC])
}

// at most one wire of the gate is unsolved; returns (has, which)
func verifOneUnsolved(s *verifSolver, wires []uint32) (bool, uint32) {
	nb := 0
	which := 0
	for w := 0; w < verifNbWires; w++ {
		used := false
		for _, x := range wires {
			used = verifOr(used, int(x) == w)
		}
		isU := verifAnd(used, !s.solved[w])
		nb += verifB2I(isU)
		which += w * verifB2I(isU)
	}
	verifAssume(nb <= 1)
	// frontend contract: the wire a gate defines occupies exactly one of its positions
	occ := 0
	for _, x := range wires {
		occ += verifB2I(verifAnd(nb == 1, int(x) == which))
	}
	verifAssume(occ <= 1)
	return nb == 1, uint32(which)
}

func verifCheckFrame(s *verifSolver, pre []ELEMTYPE, preSolved []bool, has bool, which uint32) {
	for w := 0; w < verifNbWires; w++ {
		other := !verifAnd(has, int(which) == w)
		verifAssert(verifImplies(other, verifFEq(s.values[w], pre[w])), "other wires keep their values")
		verifAssert(verifImplies(other, s.solved[w] == preSolved[w]), "other solved flags unchanged")
	}
}

func verifHarness_genericSolve() {
	s := verifMkSolver(5)
	c := SparseR1C{XA: verifWire("xa"), XB: verifWire("xb"), XC: verifWire("xc"), QL: 5, QR: 6, QO: 7, QM: 8, QC: 9}
	has, which := verifOneUnsolved(s, []uint32{c.XA, c.XB, c.XC})
	// frontend contract: a wire defined through the O position has a non-zero (static) coefficient qO;
	// for the L / R positions the effective coefficient qL + qM*xb is value dependent and checked by Solve
	verifAssume(verifImplies(verifAnd(has, c.XC == which), !verifFIsZero(s.coeffs[c.QO])))
	pre := append([]ELEMTYPE{}, s.values...)
	preSolved := append([]bool{}, s.solved...)
	bp := &BlueprintGenericSparseR1C[ELEMTYPE]{}
	var calldata []uint32
	bp.CompressSparseR1C(&c, &calldata)
	err := bp.Solve(s, Instruction{Calldata: calldata})
	verifCheckFrame(s, pre, preSolved, has, which)
	if err == nil {
		verifAssert(verifImplies(has, s.solved[which]), "the unsolved wire got a value")
		verifAssert(verifFIsZero(verifGate(s, &c)), "nil => the gate holds on the post-state")
		verifReach("generic-ok")
	} else {
		any := verifNondetElem("anyvalue")
		for w := 0; w < verifNbWires; w++ {
			if verifAnd(has, int(which) == w) {
				s.values[w] = any
			}
		}
		verifAssert(!verifFIsZero(verifGate(s, &c)), "error => the gate is violated whatever the unsolved wire is")
		verifReach("generic-err")
	}
}

// a commitment gate is skipped by the solver (documented): nothing is assigned
func verifHarness_genericCommitmentGate() {
	s := verifMkSolver(5)
	c := SparseR1C{XA: verifWire("xa"), XB: verifWire("xb"), XC: verifWire("xc"), QL: 5, QR: 6, QO: 7, QM: 8, QC: 9, Commitment: COMMITMENT}
	bp := &BlueprintGenericSparseR1C[ELEMTYPE]{}
	var calldata []uint32
	bp.CompressSparseR1C(&c, &calldata)
	var back SparseR1C
	bp.DecompressSparseR1C(&back, Instruction{Calldata: calldata})
	verifAssert(back == c, "compress/decompress round trip of the generic gate")
	err := bp.Solve(s, Instruction{Calldata: calldata})
	verifAssert(err == nil, "commitment gate: no error")
	verifAssert(s.nbSet == 0, "commitment gate: nothing assigned")
	verifReach("commitment-gate")
}

func verifHarness_addSolve() {
	s := verifMkSolver(3)
	c := SparseR1C{XA: verifWire("xa"), XB: verifWire("xb"), XC: verifWire("xc"), QL: 5, QR: 6, QC: 7}
	verifAssume(verifAnd(s.solved[c.XA], s.solved[c.XB]))
	verifAssume(!s.solved[c.XC])
	bp := &BlueprintSparseR1CAdd[ELEMTYPE]{}
	var calldata []uint32
	bp.CompressSparseR1C(&c, &calldata)
	err := bp.Solve(s, Instruction{Calldata: calldata})
	verifAssert(err == nil, "add gate solves")
	var d SparseR1C
	bp.DecompressSparseR1C(&d, Instruction{Calldata: calldata})
	verifAssert(s.solved[c.XC], "output solved")
	verifAssert(verifFIsZero(verifGate(s, &d)), "the decompressed add gate holds on the post-state")
	verifReach("add")
}

func verifHarness_mulSolve() {
	s := verifMkSolver(1)
	c := SparseR1C{XA: verifWire("xa"), XB: verifWire("xb"), XC: verifWire("xc"), QM: 5}
	verifAssume(verifAnd(s.solved[c.XA], s.solved[c.XB]))
	verifAssume(!s.solved[c.XC])
	bp := &BlueprintSparseR1CMul[ELEMTYPE]{}
	var calldata []uint32
	bp.CompressSparseR1C(&c, &calldata)
	err := bp.Solve(s, Instruction{Calldata: calldata})
	verifAssert(err == nil, "mul gate solves")
	var d SparseR1C
	bp.DecompressSparseR1C(&d, Instruction{Calldata: calldata})
	verifAssert(verifFIsZero(verifGate(s, &d)), "the decompressed mul gate holds on the post-state")
	verifReach("mul")
}

func verifHarness_boolSolve() {
	s := verifMkSolver(2)
	c := SparseR1C{XA: verifWire("xa"), QL: 5, QM: 6}
	verifAssume(s.solved[c.XA])
	bp := &BlueprintSparseR1CBool[ELEMTYPE]{}
	var calldata []uint32
	bp.CompressSparseR1C(&c, &calldata)
	err := bp.Solve(s, Instruction{Calldata: calldata})
	var d SparseR1C
	bp.DecompressSparseR1C(&d, Instruction{Calldata: calldata})
	holds := verifFIsZero(verifGate(s, &d))
	verifAssert((err == nil) == holds, "bool gate: nil iff the decompressed gate holds")
	verifAssert(s.nbSet == 0, "bool gate assigns nothing")
	verifReach("bool")
}
