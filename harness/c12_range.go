package PKGNAME

// C12 harness, canonical range (see c12_emulated.go for the stand-in): AssertIsInRange / ReduceStrict's range half and
// the bit decompositions they rest on (ToBits -> bits.ToBinary, AssertIsLessOrEqual), adversarial reading: bit hints are
// arbitrary elements of GF(q), booleanity / recomposition / comparison constraints are what the prover has to satisfy.
//   - a symbolic element in normal form passes AssertIsInRange only if its integer value is below the emulated modulus,
//     and is then flagged modReduced;
//   - the constants the library hands out: AssertIsInRange(Modulus()) is unsatisfiable (the modulus is the one constant
//     kept unreduced), AssertIsInRange of modulus - 1 and of One() is satisfiable;
//   - ToBits of a symbolic element in normal form returns boolean digits whose recomposition is the element's value;
//   - IsZero of an element in normal form on 1..NbLimbs limbs is 1 exactly when its value is 0 modulo p.
// (added after seed C12-1)
//verif:unwind 6000
//verif:replay interpreter

func verifHarness_emulatedRange() {
	f, e := verifMkEmField(true)
	_ = e
	switch verifChoose(6) {
	case 0:
		a := verifEmElement(f, EMNBLIMBS, 0)
		av := verifEmVal(a)
		f.AssertIsInRange(a)
		verifAssert(av < verifP, "AssertIsInRange(a) is satisfiable only for a below the emulated modulus")
		verifAssert(a.modReduced, "an element that passed AssertIsInRange is flagged as strictly reduced")
		verifReach("range-symbolic")
	case 1:
		f.AssertIsInRange(f.Modulus())
		verifAssert(false, "AssertIsInRange(modulus) is unsatisfiable: the modulus is not its own canonical representative")
	case 2:
		m := f.modulusPrev()
		f.AssertIsInRange(m)
		verifReach("range-modulus-minus-one")
	case 3:
		f.AssertIsInRange(f.One())
		verifReach("range-one")
	case 4:
		a := verifEmElement(f, EMNBLIMBS, 0)
		av := verifEmVal(a)
		bts := f.ToBits(a)
		var v uint32
		ok := true
		for i := range bts {
			b := verifNU(bts[i])
			ok = verifAnd(ok, b < 2)
			v += b << uint(i)
		}
		verifAssert(ok, "ToBits returns boolean digits")
		verifAssert(v == av, "the digits of ToBits recompose to the element's integer value")
		verifReach("tobits")
	case 5:
		// IsZero on an element in normal form on 1..NbLimbs limbs (constants and bit recompositions have fewer limbs than the modulus)
		a := verifEmElement(f, 1+verifChoose(EMNBLIMBS), 0)
		av := verifEmVal(a)
		z := verifNU(f.IsZero(a))
		verifEmDeferred(f, e, true)
		verifAssert(z < 2, "IsZero returns a boolean")
		verifAssert((z == 1) == (av%verifP == 0), "IsZero(a) is 1 exactly when a is congruent to 0 modulo the emulated modulus")
		verifReach("iszero")
	}
	verifReach("emulated-range")
}
