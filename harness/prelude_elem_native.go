package PKGNAME

// field operations on the element-as-words type ELEMTYPE, native flavour (replay):
// computed with the real field implementation ELEMFR.

import (
	"math/big"
	"strings"

	vfr "ELEMFR"
)

func verifE(a *ELEMTYPE) *vfr.Element { return (*vfr.Element)(a[:vfr.Limbs]) }

func verifNondetElem(name string) ELEMTYPE {
	s := verifNext()
	r, ok := verifParseRatE(s)
	if !ok {
		panic("replay: cannot map value into the field: " + s)
	}
	var n, d vfr.Element
	n.SetBigInt(r.Num())
	d.SetBigInt(r.Denom())
	var e ELEMTYPE
	verifE(&e).Div(&n, &d)
	return e
}
func verifFAdd(a, b ELEMTYPE) ELEMTYPE { var r ELEMTYPE; verifE(&r).Add(verifE(&a), verifE(&b)); return r }
func verifFSub(a, b ELEMTYPE) ELEMTYPE { var r ELEMTYPE; verifE(&r).Sub(verifE(&a), verifE(&b)); return r }
func verifFMul(a, b ELEMTYPE) ELEMTYPE { var r ELEMTYPE; verifE(&r).Mul(verifE(&a), verifE(&b)); return r }
func verifFNeg(a ELEMTYPE) ELEMTYPE    { var r ELEMTYPE; verifE(&r).Neg(verifE(&a)); return r }
func verifFInv(a ELEMTYPE) ELEMTYPE    { var r ELEMTYPE; verifE(&r).Inverse(verifE(&a)); return r }
func verifFConst(v int) ELEMTYPE       { var r ELEMTYPE; verifE(&r).SetInt64(int64(v)); return r }
func verifFEq(a, b ELEMTYPE) bool      { return verifE(&a).Equal(verifE(&b)) }
func verifFIsZero(a ELEMTYPE) bool     { return verifE(&a).IsZero() }
func verifFToU64(a ELEMTYPE) (uint64, bool) {
	e := verifE(&a)
	if !e.IsUint64() {
		return 0, false
	}
	return e.Uint64(), true
}

func verifParseRatE(s string) (*big.Rat, bool) {
	s = strings.TrimSpace(s)
	if strings.HasPrefix(s, "#x") || strings.HasPrefix(s, "#b") {
		return new(big.Rat).SetInt(new(big.Int).SetUint64(verifParseBV(s))), true
	}
	if strings.HasPrefix(s, "(- ") && strings.HasSuffix(s, ")") {
		r, ok := verifParseRatE(s[3 : len(s)-1])
		if !ok {
			return nil, false
		}
		return r.Neg(r), true
	}
	if strings.HasPrefix(s, "(/ ") && strings.HasSuffix(s, ")") {
		parts := strings.Fields(s[3 : len(s)-1])
		if len(parts) != 2 {
			return nil, false
		}
		a, ok1 := verifParseRatE(parts[0])
		b, ok2 := verifParseRatE(parts[1])
		if !ok1 || !ok2 || b.Sign() == 0 {
			return nil, false
		}
		return a.Quo(a, b), true
	}
	r, ok := new(big.Rat).SetString(strings.TrimSuffix(s, ".0"))
	return r, ok
}
