import ecs

CHECKS = {
    "C04": ecs.run,
    "C05": ecs.run,
    "C14": ecs.run,
}
