import ecs
import essa

CHECKS = {
    "C04": ecs.run,
    "C05": ecs.run,
    "C14": essa.c14,
    "C06": essa.c06,
    "C08": essa.c08,
    "C01": essa.c01,
    "C11": essa.c11,
    "C10": essa.c10,
    "C09": essa.c09,
    "C02": essa.c02,
    "C20": essa.c20,
    "C15": essa.c15,
    "C12": essa.c12,
    "C13": essa.c13,
    "C03": essa.c03,
    "C19": essa.c19,
    "C16": essa.c16,
    "C18": essa.c18,
}
