#!/usr/bin/env python3-vt
import sys, os, argparse, json
sys.path.insert(0, os.path.dirname(os.path.abspath(__file__)))
import common


def main():
    ap = argparse.ArgumentParser()
    ap.add_argument("prop", nargs="?")
    ap.add_argument("--tier", default=os.environ.get("VERIF_TIER", "quick"))
    ap.add_argument("--setup", action="store_true")
    ap.add_argument("--replay")
    args = ap.parse_args()
    os.makedirs(os.path.join(common.OUT, "tmp"), exist_ok=True)
    if args.setup:
        import ecs
        rc = ecs.setup()
        try:
            import essa
            rc = rc or essa.setup()
        except ImportError:
            pass
        sys.exit(rc)
    if args.replay:
        payload = json.load(open(args.replay))
        if payload.get("engine") == "ecs":
            import ecs
            sys.exit(ecs.replay_file(payload))
        if payload.get("engine") == "ecs-mask":
            import ecs
            sys.exit(ecs.replay_mask(payload))
        import essa
        sys.exit(essa.replay_file(payload))
    if not args.prop:
        ap.error("property id required")
    import registry
    fn = registry.CHECKS.get(args.prop)
    if fn is None:
        print("no check registered for", args.prop)
        sys.exit(2)
    sys.exit(fn(args.prop, args.tier))


if __name__ == "__main__":
    main()
