"""shared helpers for the checks: building, evidence, known findings, exit codes"""
import json, os, subprocess, sys, time, shutil, hashlib

VERIF = "/verif"
# VERIF_REPO: run the checks against another checkout (used to try seeded changes in a scratch
# worktree without touching /repo); scratch output and evidence then go to a separate directory
REPO = os.environ.get("VERIF_REPO", "/repo")
ALT = REPO != "/repo"
OUT = os.path.join(VERIF, "out") if not ALT else os.path.join(VERIF, "out", "alt-" + hashlib.md5(REPO.encode()).hexdigest()[:8])
EXIT_OK, EXIT_VIOLATION, EXIT_INCONCLUSIVE = 0, 1, 3

GOENV = dict(os.environ, GOFLAGS="-mod=mod", GOPROXY="off", GOSUMDB="off", GOTOOLCHAIN="local")


def sh(cmd, cwd=None, env=None, timeout=None, check=True):
    p = subprocess.run(cmd, cwd=cwd, env=env or GOENV, capture_output=True, text=True, timeout=timeout, shell=isinstance(cmd, str))
    if check and p.returncode != 0:
        print(p.stdout[-4000:])
        print(p.stderr[-4000:], file=sys.stderr)
        raise RuntimeError("command failed: %s" % (cmd,))
    return p


def build_go(src_dir, name, modname, extra_require=""):
    """copies the sources of a helper program to out/build/<name>, generates a go.mod
    replacing gnark by /repo's CURRENT working tree, and builds it."""
    # per-process build directory: several checks may run at the same time
    bdir = os.path.join(OUT, "build", "%s-%d" % (name, os.getpid()))
    if os.path.isdir(bdir):
        shutil.rmtree(bdir, ignore_errors=True)
    shutil.copytree(src_dir, bdir, ignore=shutil.ignore_patterns("go.mod", "go.sum"))
    with open(os.path.join(bdir, "go.mod"), "w") as f:
        f.write("module %s\n\ngo 1.23.0\n\nrequire github.com/consensys/gnark v0.0.0\n%s\nreplace github.com/consensys/gnark => %s\n" % (modname, extra_require, REPO))
    shutil.copy(os.path.join(REPO, "go.sum"), os.path.join(bdir, "go.sum"))
    binp = os.path.join(OUT, "bin", "%s-%d" % (name, os.getpid()))
    os.makedirs(os.path.dirname(binp), exist_ok=True)
    t = time.time()
    try:
        sh(["go", "build", "-o", binp, "."], cwd=bdir)
    finally:
        shutil.rmtree(bdir, ignore_errors=True)
    import atexit
    atexit.register(lambda: os.path.exists(binp) and os.remove(binp))
    return binp, time.time() - t


def load_findings():
    p = os.path.join(VERIF, "known_findings.json")
    if not os.path.exists(p):
        return []
    return json.load(open(p))["findings"]


def write_evidence(prop, tier, seed, level, coverage, assumptions, wall_s, violations):
    evdir = os.path.join(VERIF, "evidence") if not ALT else os.path.join(OUT, "evidence")
    os.makedirs(evdir, exist_ok=True)
    ev = dict(property_id=prop, tier=tier, seed=seed, level=level, coverage=coverage, assumptions=assumptions, wall_s=round(wall_s, 2), violations=violations)
    p = os.path.join(evdir, prop + ".json")
    with open(p, "w") as f:
        json.dump(ev, f, indent=1, sort_keys=False)
    return p


def write_cex(prop, n, payload):
    d = os.path.join(OUT, "cex")
    os.makedirs(d, exist_ok=True)
    p = os.path.join(d, "%s-%03d.json" % (prop, n))
    with open(p, "w") as f:
        json.dump(payload, f, indent=1)
    return p


def seed_from_env():
    try:
        return int(os.environ.get("VERIF_SEED", "1"))
    except ValueError:
        return 1
