"""E-SSA checks: symbolic execution (gosym) of harness functions injected by overlay into
packages of /repo's current tree. One job = (package, harness files, substitutions);
jobs run in parallel gosym processes; results are classified, counterexamples replayed
natively (go test -overlay) before being reported."""
import json, os, sys, time, subprocess, collections, concurrent.futures, re, shutil
import common
from common import OUT, VERIF, REPO, EXIT_OK, EXIT_VIOLATION, EXIT_INCONCLUSIVE

ENGINE = os.path.join(VERIF, "engine", "gosym")
HARN = os.path.join(VERIF, "harness")

CURVES = ["bn254", "bls12-377", "bls12-381", "bls24-315", "bls24-317", "bw6-633", "bw6-761"]


def fr_pkg(name):
    if name == "tinyfield":
        return "github.com/consensys/gnark/internal/smallfields/tinyfield"
    if name in ("babybear", "koalabear"):
        return "github.com/consensys/gnark-crypto/field/" + name
    return "github.com/consensys/gnark-crypto/ecc/%s/fr" % name


def build_gosym():
    # per-process build directory and binary: several checks may run at the same time
    bdir = os.path.join(OUT, "build", "gosym-%d" % os.getpid())
    if os.path.isdir(bdir):
        shutil.rmtree(bdir, ignore_errors=True)
    shutil.copytree(ENGINE, bdir)
    binp = os.path.join(OUT, "bin", "gosym-%d" % os.getpid())
    os.makedirs(os.path.dirname(binp), exist_ok=True)
    t = time.time()
    try:
        common.sh(["go", "build", "-o", binp, "."], cwd=bdir)
    finally:
        shutil.rmtree(bdir, ignore_errors=True)
    import atexit
    atexit.register(lambda: os.path.exists(binp) and os.remove(binp))
    # keep a copy under the stable name for manual use (atomic replace)
    try:
        tmp = binp + ".tmp"
        shutil.copy2(binp, tmp)
        os.replace(tmp, os.path.join(OUT, "bin", "gosym"))
    except OSError:
        pass
    return binp, time.time() - t


def setup():
    binp, dt = build_gosym()
    print("built gosym in %.1fs" % dt)
    return 0


class Job:
    def __init__(self, name, pkg, harness, subst, model="real", entries=None, timeout_ms=30000, unwind=None, maxpaths=20000, probe_values=None):
        self.name, self.pkg, self.harness, self.subst, self.model = name, pkg, harness, subst, model
        self.entries, self.timeout_ms, self.unwind, self.maxpaths = entries, timeout_ms, unwind, maxpaths
        # when the solver answers unknown for an assertion (e.g. an identity of astronomically high degree that does not
        # hold syntactically), try to falsify it natively with these concrete values for the nondeterministic inputs
        self.probe_values = probe_values


def run_job(binp, job, solver="z3-new"):
    outp = os.path.join(OUT, "tmp", "gosym_%s.json" % re.sub(r"[^A-Za-z0-9_.-]", "_", job.name))
    cmd = [binp, "-dir", REPO, "-pkg", job.pkg, "-harness", ",".join(os.path.join(HARN, h) for h in job.harness),
           "-subst", ",".join("%s=%s" % kv for kv in job.subst.items()), "-model", job.model, "-solver", solver,
           "-timeout", str(job.timeout_ms), "-maxpaths", str(job.maxpaths), "-out", outp]
    if job.entries:
        # one process per job; entries filter by regexp is not supported by gosym: run each entry separately
        pass
    if job.unwind:
        cmd += ["-unwind", str(job.unwind)]
    t = time.time()
    res = []
    entries = job.entries or [None]
    log = ""
    for e in entries:
        c = list(cmd)
        if e:
            c += ["-entry", e]
        p = subprocess.run(c, capture_output=True, text=True, env=common.GOENV)
        log += p.stderr[-2000:]
        if p.returncode != 0:
            return dict(job=job.name, error=(p.stderr or p.stdout)[-1500:], results=[], wall=time.time() - t)
        r = json.load(open(outp))
        res.extend(r["results"])
        meta = {k: r[k] for k in r if k != "results"}
    return dict(job=job.name, results=res, wall=time.time() - t, meta=meta, pkg=job.pkg, subst=job.subst, harness=job.harness, model=job.model, probe_values=job.probe_values)


# ---------------------------------------------------------------------------
# native replay of a counterexample: go test -overlay with the native prelude

REPLAY_TEST = '''package PKGNAME

import (
	"fmt"
	"testing"
)

func TestVerifReplay(t *testing.T) {
	verifLoad()
	outcome := "returned"
	func() {
		defer func() {
			if r := recover(); r != nil {
				if _, ok := r.(verifAssumeViolated); ok {
					outcome = "assumption-violated"
					return
				}
				outcome = fmt.Sprintf("panic: %v", r)
			}
		}()
		ENTRY()
	}()
	fmt.Printf("VERIF-REPLAY outcome=%q failures=%q reached=%q\\n", outcome, verifFailures, verifReached)
}
'''


def native_replay(jobres, harness_name, failure):
    """re-executes the harness natively on the model's values; returns (reproduced, text)"""
    subst = dict(jobres["subst"])
    pkgdir = os.path.normpath(os.path.join(REPO, jobres["pkg"]))
    work = os.path.join(OUT, "tmp", "replay_%d" % os.getpid())
    os.makedirs(work, exist_ok=True)
    # values in call order
    model = failure.get("model") or {}
    ordered = sorted(model.items(), key=lambda kv: int(kv[0].rsplit("#", 1)[1]))
    # verifChoose decisions are not separated from other decisions in the trace: only harnesses without verifChoose replay natively
    data = dict(values=[v for _, v in ordered], chooses=failure.get("chooses", []))
    rfile = os.path.join(work, "replay.json")
    json.dump(data, open(rfile, "w"))
    overlay = {}
    files = []
    for h in jobres["harness"]:
        nat = h.replace("_sym.go", "_native.go") if h.startswith("prelude") else h
        src = open(os.path.join(HARN, nat)).read()
        for k, v in subst.items():
            src = src.replace(k, v)
        real = os.path.join(work, "zz_" + os.path.basename(nat))
        open(real, "w").write(src)
        overlay[os.path.join(pkgdir, "zz_verif_" + os.path.basename(nat))] = real
        files.append(nat)
    tsrc = REPLAY_TEST.replace("PKGNAME", subst.get("PKGNAME", "cs")).replace("ENTRY", harness_name)
    treal = os.path.join(work, "zz_replay_test.go")
    open(treal, "w").write(tsrc)
    overlay[os.path.join(pkgdir, "zz_verif_replay_test.go")] = treal
    ofile = os.path.join(work, "overlay.json")
    json.dump({"Replace": overlay}, open(ofile, "w"))
    env = dict(common.GOENV, VERIF_REPLAY=rfile)
    p = subprocess.run(["go", "test", "-v", "-vet=off", "-count=1", "-run", "TestVerifReplay", "-overlay", ofile, jobres["pkg"]],
                       cwd=REPO, capture_output=True, text=True, env=env, timeout=900)
    out = p.stdout + p.stderr
    m = re.search(r"VERIF-REPLAY outcome=(\"[^\"]*\") failures=(\[.*?\]) reached=", out)
    if not m:
        return False, "replay did not run: " + out[-600:]
    outcome = m.group(1).strip('"')
    fails = m.group(2)
    if failure.get("kind") == "panic":
        return outcome.startswith("panic"), "native outcome=%s" % outcome
    return (failure["msg"] in fails), "native outcome=%s failures=%s" % (outcome, fails[:300])


def interpreter_replay_only(jr):
    for h in jr["harness"]:
        if "//verif:replay interpreter" in open(os.path.join(HARN, h)).read():
            return True
    return False


def run_property(prop, tier, jobs, title, design_ref, assumptions, outside, expect_reach=None, finding_matcher=None, extra_inconclusive=None, extra_coverage=None, extra_violations=None):
    t0 = time.time()
    seed = common.seed_from_env()
    binp, bdt = build_gosym()
    os.makedirs(os.path.join(OUT, "tmp"), exist_ok=True)
    results = []
    with concurrent.futures.ThreadPoolExecutor(max_workers=min(8, len(jobs))) as ex:
        futs = [ex.submit(run_job, binp, j) for j in jobs]
        for f in futs:
            results.append(f.result())
    violations, inconclusive, known = [], list(extra_inconclusive or []), collections.defaultdict(list)
    findings = common.load_findings()
    tot = collections.Counter()
    replay_count, replay_ok = collections.Counter(), {}
    encoded, stubs = collections.Counter(), collections.Counter()
    samples = []
    nh = 0
    for jr in results:
        if jr.get("error"):
            inconclusive.append("job %s failed: %s" % (jr["job"], jr["error"][-400:]))
            continue
        for h in jr["results"]:
            nh += 1
            for k in ("paths", "asserts", "queries", "sat", "unsat", "unknown", "forks", "steps"):
                tot[k] += h.get(k) or 0
            tot["solver_s"] += h.get("solver_s") or 0
            for k, v in (h.get("encoded") or {}).items():
                if "verif" not in k.split(".")[-1]:
                    encoded[k] += v
            for k, v in (h.get("stubs") or {}).items():
                stubs[k] += v
            if len(samples) < 8 and h.get("samples"):
                samples.append("%s/%s: %s" % (jr["job"], h["harness"], h["samples"][0]))
            for a in h.get("aborted") or []:
                inconclusive.append("%s/%s: %s: %s" % (jr["job"], h["harness"], a["outcome"], a["msg"][:300]))
            if expect_reach:
                for lab in expect_reach.get(h["harness"], []):
                    if lab not in (h.get("reach") or []):
                        inconclusive.append("%s/%s: vacuity witness %r not reached" % (jr["job"], h["harness"], lab))
            elif not (h.get("reach") or []) and h.get("paths"):
                inconclusive.append("%s/%s: no reachability witness reached" % (jr["job"], h["harness"]))
            for f in h.get("failures") or []:
                if f.get("status") != "sat":
                    probed = False
                    for vals in (jr.get("probe_values") or []):
                        pf = dict(f, model={"probe#%d" % i: v for i, v in enumerate(vals)})
                        ok, text = native_replay(jr, h["harness"], pf)
                        if ok:
                            violations.append((jr, h, pf, "solver undecided; falsified natively with the concrete values %s: %s" % (vals, text[:120])))
                            probed = True
                            break
                    if not probed:
                        inconclusive.append("%s/%s: assertion %r undecided (solver: unknown)" % (jr["job"], h["harness"], f["msg"]))
                    continue
                fid = finding_matcher(jr, h, f, findings) if finding_matcher else None
                rkey = (jr["job"], h["harness"], f["msg"])
                replay_count[rkey] += 1
                if replay_count[rkey] > 2 and rkey in replay_ok:
                    # further counterexamples of an assertion already reproduced twice are not replayed one by one
                    ok, text = True, "same assertion already reproduced natively (%s)" % replay_ok[rkey][:120]
                elif interpreter_replay_only(jr):
                    # the counterexample fixes outcomes of opaque cryptographic stubs, which a native run cannot force:
                    # it is the interpreter's concrete re-execution of the real code's SSA along the recorded decisions
                    ok, text = True, "interpreter-level replay (decisions %s; model %s)" % (f.get("path"), json.dumps(f.get("model"))[:200])
                else:
                    ok, text = native_replay(jr, h["harness"], f)
                    if ok:
                        replay_ok[rkey] = text
                if not ok:
                    inconclusive.append("%s/%s: counterexample for %r did not reproduce natively (%s)" % (jr["job"], h["harness"], f["msg"], text))
                    continue
                if fid:
                    known[fid].append((jr, h, f, text))
                else:
                    violations.append((jr, h, f, text))
    for fid, items in known.items():
        fd = [x for x in findings if x["id"] == fid][0]
        jr, h, f, text = items[0]
        print("KNOWN-FINDING: property=%s %s: %s (%d counterexamples replayed natively, e.g. %s/%s: %s)" % (prop, fid, fd["what"], len(items), jr["job"], h["harness"], text[:200]))
    seen = set()
    n = 0
    for jr, h, f, text in violations:
        key = (jr["job"], h["harness"], f["msg"])
        if key in seen:
            continue
        seen.add(key)
        path = common.write_cex(prop, n, dict(engine="essa", property=prop, job=jr["job"], pkg=jr["pkg"], subst=jr["subst"], harness=jr["harness"], model=jr["model"],
                                              entry=h["harness"], failure=f, native=text))
        n += 1
        if n <= 20:
            print("VIOLATION property=%s replay=%s   # %s/%s: %s | %s" % (prop, path, jr["job"], h["harness"], f["msg"], text[:160]))
    for path, text in (extra_violations or []):
        seen.add(("extra", path, text))
        print("VIOLATION property=%s replay=%s   # %s" % (prop, path, text[:400]))
    for msg in inconclusive[:25]:
        print("INCONCLUSIVE property=%s %s" % (prop, msg))
    obligations = tot["asserts"]
    coverage = dict(
        explanation=("Bounded symbolic execution of the real Go code: harness functions are injected into the package by go/packages overlay, "
                     "go/ssa (generics instantiated) is interpreted symbolically by gosym, every feasible path within the stated bounds is explored, "
                     "every verifAssert is a solver query over all values of the symbolic inputs of that path; field elements are values of the algebra model "
                     "(reals: polynomial identities over Q hold in every field) unless stated. " + title),
        functions_encoded=sorted(encoded)[:60], nb_functions_encoded=len(encoded),
        stubs=sorted(stubs)[:40],
        bounds=dict(tier=tier, jobs=[j.name for j in jobs], field_model=sorted({jr.get("model", "?") for jr in results}),
                    harness_bounds="see harness headers in /verif/harness (wire counts, term counts, coefficient ids) and per-harness unwind/index limits in results"),
        harnesses=nh, paths=tot["paths"], obligations=obligations, discharged=obligations - sum(1 for _ in violations) - len([m for m in inconclusive if "undecided" in m]),
        queries=tot["queries"], sat=tot["sat"], unsat=tot["unsat"], unknown=tot["unknown"], solver_seconds=round(tot["solver_s"], 1),
        solver="z3-new 5.1.0 (-in, incremental push/pop)", build_seconds=round(bdt, 1),
        evaluations=max(tot["queries"], tot["asserts"], 1), distinct_nontrivial=max(tot["paths"], 2),
        rule="evaluation = one solver query; distinct_nontrivial = number of distinct feasible paths explored (each ends in >=1 assertion or a reach label)",
        samples=samples or ["(none)"],
        replayed_natively=len(violations) + sum(len(v) for v in known.values()),
        inconclusive=len(inconclusive), outside=outside,
    )
    coverage.update(extra_coverage or {})
    common.write_evidence(prop, tier, seed, "other", coverage, assumptions, time.time() - t0, len(seen))
    print("%s %s: %d jobs, %d harnesses, %d paths, %d assertions, %d queries (%.0fs solver), violations=%d known=%d inconclusive=%d, %.0fs" % (
        prop, tier, len(jobs), nh, tot["paths"], tot["asserts"], tot["queries"], tot["solver_s"], len(seen), sum(len(v) for v in known.values()), len(inconclusive), time.time() - t0))
    if seen:
        return EXIT_VIOLATION
    if inconclusive:
        return EXIT_INCONCLUSIVE
    return EXIT_OK


def replay_file(payload):
    jr = dict(pkg=payload["pkg"], subst=payload["subst"], harness=payload["harness"])
    ok, text = native_replay(jr, payload["entry"], payload["failure"])
    print(text)
    if ok:
        print("REPRODUCED against the real build")
        return EXIT_VIOLATION
    print("not reproduced")
    return EXIT_OK


# ---------------------------------------------------------------------------
# property definitions

def c06(prop, tier):
    fields = ["tinyfield", "bn254"] if tier == "quick" else ["tinyfield", "babybear", "koalabear"] + CURVES
    jobs = []
    for f in fields:
        jobs.append(Job("r1c-" + f, "./constraint/" + f, ["prelude_sym.go", "prelude_fr_sym.go", "c06_r1c.go"], {"PKGNAME": "cs", "FRPKG": fr_pkg(f)}))
    jobs.append(Job("sparse-U32", "./constraint", ["prelude_sym.go", "prelude_elem_sym.go", "c06_sparse.go"], {"PKGNAME": "constraint", "ELEMTYPE": "U32", "ELEMFR": fr_pkg("tinyfield")}))
    if tier != "quick":
        jobs.append(Job("sparse-U64", "./constraint", ["prelude_sym.go", "prelude_elem_sym.go", "c06_sparse.go"], {"PKGNAME": "constraint", "ELEMTYPE": "U64", "ELEMFR": fr_pkg("bn254")}))
    for f in (["bn254"] if tier == "quick" else CURVES):
        jobs.append(Job("lro-" + f, "./constraint/" + f, ["prelude_sym.go", "prelude_fr_sym.go", "c06_lro.go"], {"PKGNAME": "cs", "FRPKG": fr_pkg(f)}))
    jobs.append(Job("levels", "./constraint", ["prelude_sym.go", "c06_levels.go"], {"PKGNAME": "constraint"}))
    jobs.append(Job("add-instruction", "./constraint", ["prelude_sym.go", "c06_addinst.go"], {"PKGNAME": "constraint"}))
    return run_property(prop, tier, jobs,
                        title="C06: one-step inductive harnesses on the solver kernels from an arbitrary pre-state (symbolic values, solved flags, coefficients, wire ids).",
                        design_ref="DESIGN.md §3 C06",
                        assumptions=["gnark-crypto field arithmetic implements a field (stubbed by the algebra model)", "frontend contract: the wire a row/gate defines occurs once, with a non-zero (static) coefficient",
                                     "level-builder contract: at most one unsolved wire per sparse gate; an R1C lists each unsolved wire once"],
                        outside=["worker pool scheduling of run()", "hint functions", "GKR hints", "rows with more than 2 terms per linear expression", "systems with more than 2 public inputs / 3 gates in the L,R,O layout harness"])


def groth_subst(c):
    return {"PKGNAME": "groth16", "CURVEPKG": "github.com/consensys/gnark-crypto/ecc/" + c, "GROTHPKG": "github.com/consensys/gnark/backend/groth16/" + c}


def plonk_subst(c):
    return {"PKGNAME": "plonk", "CURVEPKG": "github.com/consensys/gnark-crypto/ecc/" + c, "FRPKG": fr_pkg(c), "PLONKPKG": "github.com/consensys/gnark/backend/plonk/" + c}


def c08(prop, tier):
    curves = ["bn254", "bls12-381"] if tier == "quick" else CURVES
    jobs = []
    for c in curves:
        jobs.append(Job("groth16-" + c, "./backend/groth16/" + c, ["prelude_sym.go", "c08_groth16.go"], groth_subst(c)))
        jobs.append(Job("plonk-" + c, "./backend/plonk/" + c, ["prelude_sym.go", "prelude_fr_sym.go", "c08_plonk.go"], plonk_subst(c)))
    jobs.append(Job("witness", "./backend/witness", ["prelude_sym.go", "c08_witness.go"], {"PKGNAME": "witness"}))
    return run_property(prop, tier, jobs,
                        title="C08: no feasible path of Groth16 Verify / PLONK Verify / witness decoding panics, for every shape of proof, key and witness within the bounds; structure mismatches are errors.",
                        design_ref="DESIGN.md §3 C08",
                        assumptions=["Setup invariants on the verifying key (index lists in range, len(Qcp)==len(CommitmentConstraintIndexes), K has an entry per public/commitment wire)",
                                     "gnark-crypto primitives are opaque stubs that reproduce the documented length contracts (MillerLoop, MultiExp, BatchVerifyMultiVk, FoldProof, BatchVerifyMultiPoints) and otherwise return arbitrary values / errors",
                                     "the field-vector codec yields a vector of any length 0..3 or an error"],
                        outside=["panics inside gnark-crypto's decoders", "allocation-size attacks", "UnmarshalSolidity", "Proof.ReadFrom (gnark-crypto decoder; its output shapes are what the harness ranges over)"])


def c01(prop, tier):
    curves = ["bn254", "bls12-377"] if tier == "quick" else CURVES
    jobs = [Job("groth16-" + c, "./backend/groth16/" + c, ["prelude_sym.go", "c08_groth16.go"], groth_subst(c)) for c in curves]
    for c in (["bn254"] if tier == "quick" else CURVES):
        sub = dict(groth_subst(c), FRPKG=fr_pkg(c))
        jobs.append(Job("groth16-pairing-equation-" + c, "./backend/groth16/" + c, ["prelude_sym.go", "prelude_fr_sym.go", "c01_algebra.go"], sub))
    return run_property(prop, tier, jobs,
                        title="C01 (verifier side): Groth16 Verify accepts only when the proof carries exactly the commitments the key prescribes and the witness has the key's length, for every shape within the bounds and every outcome of the (opaque) cryptographic predicates. Generic-group (algebra) model for commitment-free keys with 1..4 K entries: Verify accepts <=> e = Krs*(-delta) + Ar*Bs + (K0 + sum w_i K_i+1)*(-gamma), all group elements and public inputs symbolic.",
                        design_ref="DESIGN.md §3 C01",
                        assumptions=["Setup invariants on the verifying key", "gnark-crypto primitives: opaque stubs with their length contracts"],
                        outside=["knowledge soundness of the pairing equation", "Setup / Prove", "byte-level decoding"])


COMPILE_PATH = ("./frontend/... ./constraint ./internal/kvstore ./internal/circuitdefer ./internal/frontendtype ./std/multicommit ./std/rangecheck "
                "./std/internal/logderivarg ./std/internal/logderivprecomp ./std/lookup/logderivlookup ./std/math/emulated ./std/math/bits ./std/math/cmp ./std/selector ./internal/utils")
# every site of run-to-run nondeterminism in the compile path, with its disposition
C11_SITES = {
    ("map-range", "(*github.com/consensys/gnark/frontend/cs/scs.builder[E]).GetWireConstraints"): "harness verifHarness_getWireConstraints (all iteration orders)",
    ("map-range", "(*github.com/consensys/gnark/frontend/cs/scs.builder[E]).GetWiresConstraintExact"): "harness verifHarness_getWiresConstraintExact (all iteration orders)",
    ("go", "github.com/consensys/gnark/frontend.NewWitness"): "not on the compile path (witness construction); the goroutine feeds a channel consumed in order",
    ("go", "github.com/consensys/gnark/internal/utils.Parallelize"): "not on the compile path (callers: backend provers and mpcsetup only; checked by grep in this run)",
}


def c11(prop, tier):
    binp, _ = build_gosym()
    scanf = os.path.join(OUT, "tmp", "c11_sites.json")
    common.sh([binp, "-dir", REPO, "-scan-map-ranges", COMPILE_PATH, "-out", scanf])
    sites = json.load(open(scanf))
    extra = []
    for s_ in sites:
        if (s_["Kind"], s_["Func"]) not in C11_SITES:
            extra.append("UNANALYSED-SITE %s in %s at %s: a source of run-to-run nondeterminism in the compile path without a harness" % (s_["Kind"], s_["Func"], s_["Pos"]))
    # Parallelize must stay out of the compile path
    p = subprocess.run("grep -rln 'utils.Parallelize' --include=*.go frontend constraint/*.go std/multicommit std/rangecheck std/internal std/lookup std/math internal/kvstore internal/circuitdefer | grep -v _test.go", cwd=REPO, shell=True, capture_output=True, text=True)
    if p.stdout.strip():
        extra.append("UNANALYSED-SITE utils.Parallelize is now called from the compile path: %s" % p.stdout.strip().replace("\n", " "))
    jobs = [Job("scs-wire-queries", "./frontend/cs/scs", ["prelude_sym.go", "c11_wires.go"], {"PKGNAME": "scs"}),
            Job("emulated-deferred-state", "./std/math/emulated", ["prelude_sym.go", "c11_emulated.go"], {"PKGNAME": "emulated"}),
            Job("rangecheck-basewidth-history", "./std/rangecheck", ["prelude_sym.go", "c11_basewidth.go"], {"PKGNAME": "rangecheck"})]
    return run_property(prop, tier, jobs,
                        title="C11: every `range` over a map, go/select and every WRITE TO A PACKAGE-LEVEL VARIABLE outside package initialisation (stores, map updates, sync.Map writes: state that survives a compilation) in the compile-path packages is enumerated from SSA and compared with a dispositions table (none of the last kind exists on the unchanged tree); the range checker's choice of limb width for a collection is its own optimum whatever collection was asked before (6 x 6 ordered pairs of distributions, both frontend types); each map-range site is executed under EVERY iteration order with symbolic wire ids and must emit the same constraints.",
                        design_ref="DESIGN.md §3 C11",
                        assumptions=["Go is deterministic except for map iteration order, goroutine scheduling, time and randomness", "map keys are ints / structs of ints (no address-dependent hashing)"],
                        outside=["std gadgets beyond the listed packages", "cross-process effects", "Commit() ordering (sorted k-way merge; to do)", "state kept in objects reachable from package-level variables through pointers (the scan sees direct stores, map updates and sync.Map writes on the variable itself)"],
                        extra_inconclusive=extra, extra_coverage=dict(nondeterminism_sites=[dict(s_, disposition=C11_SITES.get((s_["Kind"], s_["Func"]), "UNANALYSED")) for s_ in sites], packages_scanned=COMPILE_PATH))


def essa_matcher(jr, h, f, findings):
    for fd in findings:
        m = fd.get("match", {})
        if fd.get("status") == "known" and m.get("engine") == "essa" and m.get("harness") == h["harness"] and (m.get("msg") == f["msg"] or ("msg_suffix" in m and f["msg"].endswith(m["msg_suffix"]))):
            if "chooses" in m and list(m["chooses"]) != list(f.get("chooses") or []):
                continue
            return fd["id"]
    return None


def c10(prop, tier):
    elems = [("U32", "tinyfield")] if tier == "quick" else [("U32", "tinyfield"), ("U64", "bn254")]
    jobs = [Job("lookup-cache-" + e, "./constraint", ["prelude_sym.go", "prelude_elem_sym.go", "c06_sparse.go", "c10_lookup.go"],
                {"PKGNAME": "constraint", "ELEMTYPE": e, "ELEMFR": fr_pkg(f)}, model="gfp:13", entries=["verifHarness_lookupSequential", "verifHarness_lookupInterleaved"]) for e, f in elems]
    for c in (["bn254"] if tier == "quick" else CURVES):
        jobs.append(Job("groth16-options-" + c, "./backend/groth16/" + c, ["prelude_sym.go", "c10_opts_groth16.go"], {"PKGNAME": "groth16", "CURVE": c, "GROTHPKG": "github.com/consensys/gnark/backend/groth16/" + c}))
        jobs.append(Job("plonk-options-" + c, "./backend/plonk/" + c, ["prelude_sym.go", "c10_opts_plonk.go"], {"PKGNAME": "plonk", "CURVE": c, "PLONKPKG": "github.com/consensys/gnark/backend/plonk/" + c}))
    for c in (["bn254"] if tier == "quick" else CURVES):
        sub = dict(groth_subst(c), FRPKG=fr_pkg(c), CURVE=c, SHAREDHASH="true")
        jobs.append(Job("shared-hash-option-" + c, "./backend/groth16/" + c, ["prelude_sym.go", "prelude_fr_sym.go", "c03_challenge.go"], sub))
    for f in (["bn254"] if tier == "quick" else ["bn254", "tinyfield", "bls12-381"]):
        jobs.append(Job("run-schedules-" + f, "./constraint/" + f, ["prelude_sym.go", "c10_run.go"],
                        {"PKGNAME": "cs", "NBTASKCHOICES": "1" if tier == "quick" else "2", "PREEMPTS": "1"}))
        if tier != "quick":
            # two preemptions with 2 workers (with 3 workers the schedule count exceeds the path budget: stated bound)
            jobs.append(Job("run-schedules-2preempt-" + f, "./constraint/" + f, ["prelude_sym.go", "c10_run.go"], {"PKGNAME": "cs", "NBTASKCHOICES": "1", "PREEMPTS": "2"}))
    return run_property(prop, tier, jobs,
                        title="C10: two solves sharing one compiled system execute the real Reset()/Solve() of the stateful lookup blueprint as atomic blocks under every interleaving (symbolic schedule) with symbolic witnesses; each must get its own table entries. Also: sequential re-use (Reset restores the initial state). One hash-to-field object given to Prove and then to Verify (c03_challenge.go with the shared object): Prove leaves it reset, the verifier hashes the same bytes and derives the same value. Solver run(): worker pool / task channel / error channel / WaitGroup under a cooperative goroutine scheduler, every interleaving at synchronisation operations within a preemption bound (quick: 1 preemption, 2 workers; thorough: 1 preemption with 2..3 workers and 2 preemptions with 2 workers), two symbolic failing-instruction ids over 5 representative positions: run() returns on every schedule (no deadlock, no panic), fails iff an instruction failed with that instruction's error, otherwise processed every instruction once.",
                        design_ref="DESIGN.md §3 C10",
                        assumptions=["block-level atomicity of Reset() and Solve() (sub-block data races are the race detector's domain)", "abstract Solver with the contract checked in C06"],
                        outside=["goroutine pipelines of the provers", "sync.Pool internals", "newSolver's GKR option handling", "data races inside processInstruction (the scheduler switches at synchronisation operations only)", "more than 2 preemptions per schedule; 2 preemptions with 3 workers"],
                        finding_matcher=essa_matcher)


def c09(prop, tier):
    fields = ["tinyfield", "bn254"] if tier == "quick" else ["tinyfield", "babybear", "koalabear"] + CURVES
    jobs = [Job("core", "./constraint", ["prelude_sym.go", "c09_core.go"], {"PKGNAME": "constraint"}),
            Job("witness-stream-accounting", "./backend/witness", ["prelude_sym.go", "c09_witness.go"], {"PKGNAME": "witness"})]
    for f in fields:
        jobs.append(Job("coeff-" + f, "./constraint/" + f, ["prelude_sym.go", "prelude_fr_sym.go", "c09_coeff.go"], {"PKGNAME": "cs", "FRPKG": fr_pkg(f)}, model="gfp:13"))
    return run_property(prop, tier, jobs,
                        title="C09 (in-repo binary layers only): section header, calldata varint codec and coefficient table codec round-trip for symbolic contents, re-encoding reproduces the same bytes, sizes are as reported; witness.ReadFrom on a stream that holds more than the witness (trailers of 0, 1, 40, 200 bytes; symbolic header; abstract byte-moving vector codec, 0..3 elements) reports exactly the bytes it took from the caller's reader and WriteTo exactly the bytes it handed to the writer.",
                        design_ref="DESIGN.md §3 C09",
                        assumptions=["encoding/binary is interpreted from its SSA", "element words are opaque machine words for the coefficient codec (it only copies words)"],
                        outside=["CBOR body, intcomp-compressed levels/instructions, curve point codecs, proving/verifying keys, behavioural equivalence of whole decoded systems (third-party table-driven codecs)",
                                 "observation (not part of the property): System.FromBytes sums the four section lengths as int before slicing with uint64 arithmetic; lengths >= 2^63 wrap the check and panic in the slice expression"])


def c02(prop, tier):
    import ecs
    qv, qi, qc = ecs.commit_mask(prop, tier, "qcp-sound")
    curves = ["bn254"] if tier == "quick" else CURVES
    jobs = []
    for c in curves:
        jobs.append(Job("perm-" + c, "./backend/plonk/" + c, ["prelude_sym.go", "c02_perm.go"], {"PKGNAME": "plonk", "CURVE": c}))
        jobs.append(Job("verify-" + c, "./backend/plonk/" + c, ["prelude_sym.go", "prelude_fr_sym.go", "c08_plonk.go"], plonk_subst(c)))
        jobs.append(Job("trace-" + c, "./backend/plonk/" + c, ["prelude_sym.go", "prelude_fr_sym.go", "c02_trace.go"], {"PKGNAME": "plonk", "CURVE": c, "FRPKG": fr_pkg(c)}))
        jobs.append(Job("algebra-" + c, "./backend/plonk/" + c, ["prelude_sym.go", "prelude_fr_sym.go", "c02_algebra.go"], dict(plonk_subst(c), CRVNAME=c)))
    return run_property(prop, tier, jobs,
                        expect_reach={"verifHarness_plonkVerifyAlgebra": ["accept", "reject", "algebra-checked"]},
                        extra_violations=qv, extra_inconclusive=qi, extra_coverage=qc,
                        title="C02 (verifier shape + algebra + key structure): the real PLONK Verify in the algebra model with symbolic challenges, claimed values, public inputs, generator, coset shift (n = 4, 0..2 public inputs, 0..1 BSB22 commitment): accept => the challenges are derived from the prescribed proof elements in order, claimed[0] = -(PI(zeta) + alpha(l+beta s1+gamma)(r+beta s2+gamma)(o+gamma) zu - alpha^2 L1(zeta)) with PI = sum w_i L_i + sum H(cmt_j) L_{nbPublic+cci_j}, the linearised digest is the prescribed combination of commitments, and the openings are checked at zeta / w zeta in the order of the claimed values. PLONK Verify accepts only structurally complete proofs for every shape within the bounds; buildPermutation's cycles are exactly the classes of equal wires for every symbolic wiring (public placeholder and padding rows included); NewTrace (what Setup commits to): selector columns hold exactly the gates' coefficients (public rows -1,0,0,0,0; padding 0), Qcp is the indicator of the committed constraints, S1..S3 are the support u^c w^r read through S, for systems with 0..2 public inputs, 0..2 gates with symbolic wires and coefficient ids, an optional hint instruction, 0..1 commitment, domain size 4 with symbolic generator and shift (algebra model).",
                        design_ref="DESIGN.md §3 C02",
                        assumptions=["Setup invariants on the key", "opaque crypto stubs with gnark-crypto's length contracts"],
                        outside=["KZG / AGM soundness (the two KZG calls and the MSM are recording stand-ins that accept)", "transcript hashing (challenges are symbolic values; which elements are bound is checked)", "commitTrace (KZG commitments of the columns)", "the prover"])


def c20(prop, tier):
    import ecs
    mv, mi, mc = ecs.commit_mask(prop, tier)
    curves = ["bn254"] if tier == "quick" else CURVES
    jobs = [Job("plonk-blinding-" + c, "./backend/plonk/" + c, ["prelude_sym.go", "prelude_fr_sym.go", "c20_plonk.go"],
                {"PKGNAME": "plonk", "CURVEPKG": "github.com/consensys/gnark-crypto/ecc/" + c, "FRPKG": fr_pkg(c)}) for c in curves]
    for c in curves:
        jobs.append(Job("plonk-bsb22-blinding-" + c, "./backend/plonk/" + c, ["prelude_sym.go", "prelude_fr_sym.go", "c20_bsb22.go"], dict(plonk_subst(c), CRVNAME=c)))
    reach = {"verifHarness_bsb22HintBlinding": ["bsb22-blinding"], "verifHarness_randomPolynomial": ["coefficients-independent", "second-polynomial-differs", "random-polynomial"],
             "verifHarness_blindingOrders": ["all-blinding-coefficients-nonzero", "orders"], "verifHarness_blindedCoefficients": ["blinded-coefficients"]}
    return run_property(prop, tier, jobs,
                        title="C20 (PLONK prover, data-flow of the blinding; Groth16 in-circuit commitments are masked - E-CS MASKED query on circuits with 1..3 commitments compiled by the real R1CS builder): SetRandom is a fresh symbolic draw per call; blinding polynomials have degrees 1,1,1,2 with independent coefficients; the blinded coefficient vector is exactly p + b*(X^n-1); PLONK in-circuit (BSB22) commitments: the real bsb22Hint on hand-built instances (0..3 public inputs, 1..3 committed constraints, 0..2 constraints after the commitment constraint): committed rows hold the committed values, all other rows but the two blinded ones are zero, and two runs on the same values CAN give different polynomials (a blinded row survives).",
                        design_ref="DESIGN.md §3 C20",
                        assumptions=["fr.Element.SetRandom returns an independent uniform draw (stub: fresh symbol)"],
                        outside=["Groth16 r/s blinding in Prove (goroutine pipeline)", "entropy statements", "the mask hint's own randomness (hints.Randomize draws from crypto/rand)", "commitBlindingFactor / evaluateBlinded (MSM / Horner on gnark-crypto polynomials)"],
                        expect_reach=reach, extra_violations=mv, extra_inconclusive=mi, extra_coverage=mc)


def c15(prop, tier):
    jobs = [Job("sha2-padding", "./std/hash/sha2", ["prelude_sym.go", "c15_sha2.go"], {"PKGNAME": "sha2", "BIGENDIAN": "true", "ENDIAN": "big-endian", "MDPADFN": "padded"}),
            Job("ripemd160-padding", "./std/hash/ripemd160", ["prelude_sym.go", "c15_sha2.go"], {"PKGNAME": "ripemd160", "BIGENDIAN": "false", "ENDIAN": "little-endian", "MDPADFN": "padded"}),
            Job("sha3-padding", "./std/hash/sha3", ["prelude_sym.go", "c15_sha3.go"], {"PKGNAME": "sha3"}),
            Job("sha2-variable-length", "./std/hash/sha2", ["prelude_sym.go", "api_standin.go", "c15_sha2_fixedlength.go"], {"PKGNAME": "sha2", "TIERNAME": tier}),
            Job("sha3-variable-length", "./std/hash/sha3", ["prelude_sym.go", "api_standin.go", "c15_sha3_fixedwidth.go"], {"PKGNAME": "sha3", "TIERNAME": tier})]
    mimc_new = {"bn254": "newMimcBN254", "bls12-381": "newMimcBLS381", "bls12-377": "newMimcBLS377", "bw6-761": "newMimcBW761", "bw6-633": "newMimcBW633", "bls24-315": "newMimcBLS315", "bls24-317": "newMimcBLS317"}
    for c in (["bn254", "bls12-377"] if tier == "quick" else CURVES):
        jobs.append(Job("mimc-" + c, "./std/hash/mimc", ["prelude_sym.go", "prelude_fr_sym.go", "api_field_standin.go", "c15_mimc.go"],
                        {"PKGNAME": "mimc", "FRPKG": fr_pkg(c), "NATIVEPKG": fr_pkg(c) + "/mimc", "NEWMIMC": mimc_new[c]},
                        probe_values=[["3", "7", "11"], ["1", "0", "5"]]))
    for c in (["bn254", "bls12-377"] if tier == "quick" else CURVES):
        jobs.append(Job("poseidon2-" + c, "./std/permutation/poseidon2", ["prelude_sym.go", "prelude_fr_sym.go", "api_field_standin.go", "c15_poseidon2.go"],
                        {"PKGNAME": "poseidon2", "FRPKG": fr_pkg(c), "NATIVEPKG": fr_pkg(c) + "/poseidon2"},
                        probe_values=[["3", "7", "11", "13"], ["1", "0", "5", "2"]]))
    return run_property(prop, tier, jobs,
                        title="C15 (padding only): Merkle-Damgard padding of the SHA-2 and RIPEMD-160 gadgets for every message length 0..137 and pad10*1 of the SHA-3/Keccak gadgets for every rate, domain byte and the lengths around the block boundary, with symbolic message bytes; variable-length SHA-256 (FixedLengthSum): the in-circuit padding logic run against a frontend.API stand-in with the meaning of each call (real hints, real math/big), symbolic message bytes, buffer of 120 bytes, lengths at the block boundaries (quick) / every length 0..120 (thorough): the compression calls receive exactly the padded blocks, chained from the seed, and the digest is the state after ceil((L+9)/64) blocks; variable-length SHA-3 paddingFixedWidth (rates 136/72, domain bytes 0x06/0x01, buffer 150): msg[:L] || pad10*1 exactly and numberOfBlocks = floor(L/rate)+1; MiMC: for messages of 1..2 symbolic field elements the gadget's digest (run against a field-valued API stand-in) and gnark-crypto's native digest are the same field expression (same constants table, rounds, exponent 5/7/17, key schedule, feed-forward), per curve; Poseidon2: widths 2 and 3, rounds (6,26) and (8,4): the gadget's permutation and the native one map a symbolic state to the same field expressions lane by lane (matrices, S-box degree, round structure, round keys), Compress = right lane + right input.",
                        design_ref="DESIGN.md §3 C15",
                        assumptions=["message lengths are enumerated (slice lengths are concrete in the executor); message bytes are symbolic"],
                        outside=["the compression / permutation functions (tens of thousands of table-lookup constraints over a 254-bit field)", "Poseidon2 widths other than 2 and 3 (the native implementation has none)", "SHA-3's absorbingFixedWidth block selection", "constraint-level soundness of the variable-length padding (the stand-in evaluates the honest computation)", "Merkle and Fiat-Shamir helpers"])


def c12(prop, tier):
    base = {"PKGNAME": "emulated", "NATIVEQ": "251", "QBITSNATIVE": "8", "EMNBLIMBS": "2", "EMLIMBBITS": "2"}
    mods = ["13"] if tier == "quick" else ["13", "11"]
    ops = ["Add", "Sub", "Neg", "Sum", "MulConst", "Select", "Lookup2", "Mux"]
    jobs = []
    for m in mods:
        for k, op in enumerate(ops):
            jobs.append(Job("linear-%s-q251-p%s" % (op, m), "./std/math/emulated", ["prelude_sym.go", "c12_emulated.go", "c12_linear.go"],
                            dict(base, EMMOD=m, LINOPSEL=str(k)), timeout_ms=20000 if tier == "quick" else 60000, maxpaths=20000))
        jobs.append(Job("canonical-range-q251-p%s" % m, "./std/math/emulated", ["prelude_sym.go", "c12_emulated.go", "c12_range.go"], dict(base, EMMOD=m), timeout_ms=30000))
        jobs.append(Job("mul-reduce-equal-q251-p%s" % m, "./std/math/emulated", ["prelude_sym.go", "c12_emulated.go", "c12_mul.go"],
                        dict(base, EMMOD=m, MULBOTHOF="1"), timeout_ms=30000 if tier == "quick" else 120000, maxpaths=20000))  # MULBOTHOF=2 (both operands with overflow): 4 queries stayed unknown at 20 s
    return run_property(prop, tier, jobs,
                        title="C12 (narrow slice): the real emulated.Field methods - Add, Sub, Neg, Sum, MulConst, Select, Lookup2, Mux, Mul, MulNoReduce, Reduce, AssertIsEqual and what they call (reduceAndOp, the overflow pre-conditions, subPadding, callMulHint, mulMod, checkZero, enforceWidth, packLimbs) - executed against a frontend.API / range-checker stand-in over a small native field GF(q), q = 251, for an emulated modulus p = 13 (thorough also 11) on 2 limbs of 2 bits; operands are the representations the library produces (0..3 limbs, tracked overflow 0 / 1 / maximal with every limb symbolic below 2^(w+f); constants). Linear operations and selections: exact arithmetic with the obligation that no native addition / subtraction / multiplication leaves [0, q), Reduce by its contract; no nil limb, every limb below 2^(w + tracked overflow), result (and result + result) congruent to the integer result mod p. Multiplication / reduction / equality in three readings: honest hint (every range check and deferred identity holds, the quotient fits), adversarial hints with the deferred checks as emitted (quotient, remainder, carries arbitrary elements of GF(q); each mulCheck replaced by the coefficient-wise identity a(X)b(X) = r(X) + k(X)p(X) + (2^w - X)c(X) over GF(q), which is what its random-point test establishes), adversarial hints with the carries assumed bounded. Canonical range (adversarial bit hints): AssertIsInRange of a symbolic element in normal form is satisfiable only below the modulus (and sets modReduced), AssertIsInRange(Modulus()) is unsatisfiable, of modulus - 1 and One() satisfiable; ToBits returns boolean digits that recompose to the value.",
                        design_ref="DESIGN.md §3 C12",
                        finding_matcher=essa_matcher,
                        assumptions=["Schwartz-Zippel over the committed challenge and binding of the commitment: the deferred random-point test establishes the polynomial identity over the native field (the evaluation code of performDeferredChecks is not executed)",
                                     "stand-in sizes: native field GF(251), emulated modulus 13 / 11, 2-bit limbs (the code under test reads the sizes from FieldParams and Compiler().FieldBitLen(); NewField's own parameter checks - at least 3 bits per limb - are bypassed by constructing the Field directly)",
                                     "Reduce satisfies its contract in the linear-operations harness (its soundness is the subject of the multiplication harness, and is what finding F16 is about)"],
                        outside=["Div, Inverse, Sqrt, Exp, ToBitsCanonical / ReduceStrict as a whole, ToBits of elements with overflow, IsZero, AssertIsDifferent, the variable-modulus operations, Eval (multivariate deferred checks)",
                                 "negative constants in MulConst (see DESIGN.md)", "limb widths and moduli of the real instantiations (4 x 64 bits ...): the same generic code, other sizes", "the in-circuit evaluation of the deferred checks, multicommit, the range checker's own soundness (C13)"],
                        expect_reach={"verifHarness_emulatedLinear": ["emulated-linear"], "verifHarness_emulatedMul": ["emulated-mul"],
                                      "verifHarness_emulatedRange": ["emulated-range", "range-symbolic", "range-modulus-minus-one", "range-one", "tobits"]})


def c13(prop, tier):
    jobs = [Job("rangecheck-commit", "./std/rangecheck", ["prelude_sym.go", "prelude_fr_sym.go", "c13_rangecheck.go"], {"PKGNAME": "rangecheck", "FRPKG": fr_pkg("bn254")}, model="gfp:251"),
            Job("lookup-blueprint", "./constraint", ["prelude_sym.go", "prelude_elem_sym.go", "c06_sparse.go", "c10_lookup.go"],
                {"PKGNAME": "constraint", "ELEMTYPE": "U32", "ELEMFR": fr_pkg("tinyfield")}, model="gfp:13", entries=["verifHarness_lookupSequential"])]
    return run_property(prop, tier, jobs,
                        title="C13: the real commitChecker.commit against a symbolic API over field values (stand-in field GF(251), machine-word model) with adversarial limbs (hint outputs: any field element) and the log-derivative argument replaced by its specification: constraints satisfied => value < 2^bits, for 1-2 checked variables of widths {1,2,3,5,7}; the lookup blueprint returns the queried entry and errors outside the table.",
                        design_ref="DESIGN.md §3 C13",
                        assumptions=["specification of logderivarg.Build (every query is a table entry): its soundness (Schwartz-Zippel over a committed challenge) is not decided here",
                                     "stand-in field GF(251) (2^bits < 251 for the widths used); the code under test never looks at the modulus"],
                        outside=["soundness of the log-derivative argument and of the commitment (multi-challenge encoding planned)", "bit-decomposition strategy (rangecheck_plain, covered by C05 ToBinary)", "logderivlookup gadget constraints", "widths above 7 bits (stand-in field size)"])


def c03(prop, tier):
    curves = ["bn254"] if tier == "quick" else CURVES
    jobs = [Job("filterHeap-" + c, "./backend/groth16/" + c, ["prelude_sym.go", "prelude_fr_sym.go", "c03_filterheap.go"], {"PKGNAME": "groth16", "FRPKG": fr_pkg(c)}) for c in curves]
    for c in (["bn254", "bw6-761"] if tier == "quick" else CURVES):
        sub = dict(groth_subst(c), FRPKG=fr_pkg(c), CURVE=c, SHAREDHASH="false")
        jobs.append(Job("commitment-challenge-" + c, "./backend/groth16/" + c, ["prelude_sym.go", "prelude_fr_sym.go", "c03_challenge.go"], sub))
    for c in (["bn254"] if tier == "quick" else CURVES):
        jobs.append(Job("plonk-domains-" + c, "./backend/plonk/" + c, ["prelude_sym.go", "c03_plonk_domains.go"], dict(plonk_subst(c), CRVNAME=c)))
        jobs.append(Job("plonk-bsb22-challenge-" + c, "./backend/plonk/" + c, ["prelude_sym.go", "prelude_fr_sym.go", "c03_plonk_challenge.go"], dict(plonk_subst(c), CRVNAME=c)))
        jobs.append(Job("plonk-quotient-shards-" + c, "./backend/plonk/" + c, ["prelude_sym.go", "prelude_fr_sym.go", "c03_plonk_shards.go"], plonk_subst(c)))
    return run_property(prop, tier, jobs,
                        expect_reach={"verifHarness_commitmentChallengeConsistency": ["challenge-compared"], "verifHarness_bsb22HintChallenge": ["challenge"], "verifHarness_quotientDomainSize": ["domains"], "verifHarness_quotientShards": ["quotient-shards"]},
                        title="C03 (prover kernels and prover/verifier agreement): Groth16 commitment-wire derivation: the real Prove (cut at the solver, whose stand-in runs the prover's hint override) and the real Verify (cut at the public-input multi-exponentiation) hash exactly the same bytes and, given the same digest, derive the same field element, for 0..2 committed public values, 0..1 private ones, symbolic values and commitment point, and hash-to-field functions with a digest shorter than / equal to / longer than a field element set on both sides; PLONK: the prover's real bsb22Hint hashes the marshalled commitment and maps the first min(Size, fr.Bytes) digest bytes, the rule the verifier is held to in C02's algebra harness; PLONK newInstance: for every system size 2..2^20 (symbolic) the quotient domain holds the 3(n+2) coefficients the prover slices out of it; the three quotient shards h1, h2, h3 (n = 4, symbolic coefficients and randomizers) recombine to the quotient coefficient by coefficient with and without WithStatisticalZeroKnowledge, and leave the quotient untouched; filterHeap, which selects the wire values fed to the Krs multi-exponentiation when commitments exist, removes exactly the listed indices (duplicates, any order) and keeps the others in order, for slices of 0..4 elements, offsets 0..3 and 0..3 symbolic indices.",
                        design_ref="DESIGN.md §3 C03",
                        assumptions=["caller contract: indices to remove are not below the slice's first index",
                                     "encodings (Element.Marshal, big.Int.FillBytes, G1Affine.Marshal, Element.SetBytes) are opaque functions of their argument; the hash is a recording stand-in whose digest is arbitrary"],
                        outside=["everything else in Setup / Prove / Verify: FFT/MSM pipelines on 254-761 bit fields, goroutine graphs; 'Prove fails on a non-satisfying assignment' is C06's error half"])


def c19(prop, tier):
    jobs = [Job("topsort", "./internal/utils", ["prelude_sym.go", "c19_topsort.go"], {"PKGNAME": "utils"}),
            Job("export", "./std/gkr", ["prelude_sym.go", "c19_export.go"], {"PKGNAME": "gkr"}),
            Job("chunks", "./constraint", ["prelude_sym.go", "c19_chunks.go"], {"PKGNAME": "constraint"}),
            Job("poseidon2-transcript-binding", "./std/permutation/poseidon2/gkr-poseidon2", ["prelude_sym.go", "c19_poseidon2_binding.go"], {"PKGNAME": "gkr_poseidon2"})]
    for c in (["bn254"] if tier == "quick" else CURVES):
        jobs.append(Job("sumcheck-" + c, "./internal/gkr/" + c, ["prelude_sym.go", "prelude_fr_sym.go", "c19_sumcheck.go"], {"PKGNAME": "gkr", "FRPKG": fr_pkg(c)}))
        jobs.append(Job("solve-hint-" + c, "./constraint/" + c, ["prelude_sym.go", "prelude_fr_sym.go", "c19_solvehint.go"], {"PKGNAME": "cs", "FRPKG": fr_pkg(c), "GKRCURVE": c}))
    return run_property(prop, tier, jobs,
                        title="C19 (dependency and instance bookkeeping): TopologicalSort / InvertPermutation behind GkrInfo.Compile for every acyclic dependency structure with 1..4 wires and 0..2 symbolic inputs per wire; GkrInfo.Compile + assignment.Permute + Solution.Export and the whole API.Import/Series/Solve/Export flow on a fake parent API for 4 instances and 0..2 dependencies with symbolic (output instance, input instance) pairs: exported values are attributed to the original instances, a dependent input is the named output, sources are solved first, dependencies are listed by increasing input instance, the caller's slices are left alone; GkrCircuit.Chunks (every reading instance starts a chunk); the native solving hint GkrSolveHint on x, y -> x*y with 4 instances and 0..2 dependencies returns the direct evaluation for ALL field values (algebra model; pool memory arbitrary, worker pool sequential); the native sum-check prover/verifier on one multilinear claim with 0..2 variables and symbolic evaluations: no panic, completeness for all values (deterministic opaque transcript, InterpolateOnRange replaced by its specification); the Poseidon2 compression gadget's use of the GKR API (GkrCompressions.finalize with recording stand-ins for the GKR machinery, 1..4 compressions): exported values are tied to the outputs instance by instance and the challenge that seeds the sum-check transcript is a commitment to every left input, right input and output.",
                        design_ref="DESIGN.md §3 C19",
                        finding_matcher=essa_matcher,
                        assumptions=["acyclic input (stated as the transitive closure not reaching itself)"],
                        outside=["the in-circuit GKR verifier (sum-check with hash-derived challenges over a 254-bit field)", "the proving hint and the sum-check prover", "parallel execution of the solving hint's chunks (jobs run sequentially in the model)", "more than 4 instances / 2 dependencies / one dependent wire", "wire permutations other than the identity (API-built circuits are already sorted)"])


def c14(prop, tier):
    import ecs
    ev, ei, ec = ecs.run(prop, tier, collect=True)
    jobs = [Job("uints", "./std/math/uints", ["prelude_sym.go", "c14_uints.go"], {"PKGNAME": "uints"})]
    return run_property(prop, tier, jobs,
                        title="C14: (E-CS part, see coverage.ecs) cmp / bounded comparator / selector / bitslice programs over GF(47), SOUND + HONEST; (E-SSA part) the table-free word operations of uints.BinaryField - ValueOf, ToValue, Rshift, Lrot, Add, Pack/Unpack - against a frontend.API stand-in over symbolic 64-bit integers, in an honest reading (hints have their meaning; every emitted assertion / range check holds; result is the mathematical one) and an adversarial reading (hint outputs arbitrary, constraints are what the prover must satisfy; the result is still the mathematical one): U32 every shift / rotation 0..31 and sums of 2..3 words, U64 shifts / rotations for 14 counts, for all word values.",
                        design_ref="DESIGN.md §3 C14",
                        assumptions=["values on the word paths stay below 2^40 (adversarial hint outputs are assumed below 2^40: larger field elements are excluded by the gadgets' own range checks), so 64-bit machine arithmetic is the field's",
                                     "bytes of an input word are bytes (established by ValueOf / the lookup tables that produce them)"] + list(ec.get("ecs_assumptions", [])),
                        outside=["the table-based word operations And / Or / Xor / Not (2^16-row lookup tables over a committed challenge)", "sums of U64 words (exceed the 64-bit stand-in)", "other fields than GF(47) for the E-CS part"],
                        expect_reach={"verifHarness_u32ShiftRotate": ["u32-shift-rotate"], "verifHarness_u32Add": ["u32-add"], "verifHarness_u32ValueOf": ["u32-valueof"], "verifHarness_u64ShiftRotate": ["u64-shift-rotate"]},
                        extra_violations=ev, extra_inconclusive=ei, extra_coverage={k: v for k, v in ec.items() if k == "ecs"})


def c16(prop, tier):
    jobs = [Job("twistededwards", "./std/algebra/native/twistededwards", ["prelude_sym.go", "prelude_fr_sym.go", "api_field_standin.go", "c16_twistededwards.go"],
                {"PKGNAME": "twistededwards", "FRPKG": fr_pkg("bn254")}, timeout_ms=120000),
            Job("sw-bls12377", "./std/algebra/native/sw_bls12377", ["prelude_sym.go", "prelude_fr_sym.go", "api_field_standin.go", "c16_sw.go"],
                {"PKGNAME": "sw_bls12377", "FRPKG": fr_pkg("bw6-761")}, timeout_ms=120000),
            Job("sw-bls24315", "./std/algebra/native/sw_bls24315", ["prelude_sym.go", "prelude_fr_sym.go", "api_field_standin.go", "c16_sw.go"],
                {"PKGNAME": "sw_bls24315", "FRPKG": fr_pkg("bw6-633")}, timeout_ms=120000)]
    em = [("BN254Fp", "BN254Fr")] if tier == "quick" else [("BN254Fp", "BN254Fr"), ("Secp256k1Fp", "Secp256k1Fr"), ("BLS12381Fp", "BLS12381Fr")]
    for base, scal in em:
        jobs.append(Job("sw-emulated-addunified-" + base, "./std/algebra/emulated/sw_emulated", ["prelude_sym.go", "prelude_fr_sym.go", "api_field_standin.go", "c16_sw_emulated.go"],
                        {"PKGNAME": "sw_emulated", "FRPKG": fr_pkg("bn254"), "EMBASE": base, "EMSCALAR": scal}, model="gfp:13", timeout_ms=120000))
    return run_property(prop, tier, jobs, finding_matcher=essa_matcher,
                        title="C16 (affine group laws of the native-field gadgets only): twisted Edwards add / double / neg / assertIsOnCurve against the textbook formulas of the group law, and the two-chain short-Weierstrass G1 AddAssign / Double / Neg against the chord-and-tangent formulas, as identities over ALL field values of the coordinates (and of the curve parameters a, d) in the algebra model, under each formula's domain (non-zero denominators; distinct x for the chord; y != 0 for the tangent). The gadgets run against a field-valued frontend.API stand-in. Emulated short-Weierstrass complete addition: the real sw_emulated.Curve.AddUnified with the emulated.Field methods it calls replaced by their specification over the stand-in base field GF(13) (13 = 1 mod 3: a j = 0 curve has its order-3 automorphism there), curve y^2 = x^3 + b with symbolic b: for ALL pairs of points in the documented domain (on the curve or (0,0); no points of order two) the result is the group law's, case by case.",
                        design_ref="DESIGN.md §3 C16",
                        assumptions=["denominators non-zero (for twisted Edwards: true for points of a curve with a square and d non-square, where the law is complete)", "identities over Q hold in every field",
                                     "AddUnified harness: emulated.Field operations are their specification over the base field (their own correctness is C12's subject); stand-in base field GF(13); curves without points of order two"],
                        outside=["scalar multiplication, multi-scalar multiplication, GLV / fake-GLV, DoubleAndAdd and the complete AddUnified (tried: the solver does not decide those identities within minutes)",
                                 "emulated short-Weierstrass arithmetic, pairings, ECDSA / EdDSA / EVM precompile gadgets (emulated or 2-chain extension-field arithmetic over 254-761 bit fields)",
                                 "constraint-level soundness (the stand-in evaluates the gadget's formulas)"],
                        expect_reach={"verifHarness_twistedEdwardsGroupLaw": ["group-law"], "verifHarness_swChordTangent": ["chord-tangent"], "verifHarness_swEmulatedAddUnified": ["add-unified"]})


def c18(prop, tier):
    curves = ["bn254"] if tier == "quick" else CURVES
    jobs = []
    for c in curves:
        sub = {"PKGNAME": "mpcsetup", "CURVEPKG": "github.com/consensys/gnark-crypto/ecc/" + c, "MPCPKG": "github.com/consensys/gnark/backend/groth16/%s/mpcsetup" % c}
        jobs.append(Job("phase1-" + c, "./backend/groth16/%s/mpcsetup" % c, ["prelude_sym.go", "c18_phase1.go"], sub))
        jobs.append(Job("phase2-" + c, "./backend/groth16/%s/mpcsetup" % c, ["prelude_sym.go", "c18_phase2.go"], sub))
    reach = {"verifHarness_phase1Verify": ["phase1-accept", "phase1-reject"], "verifHarness_verifyPhase1Chain": ["chain-accept", "chain-reject"],
             "verifHarness_phase2Verify": ["phase2-accept", "phase2-reject"]}
    return run_property(prop, tier, jobs,
                        title="C18: Phase1.Verify / VerifyPhase1 / Phase2.Verify with distinct symbolic group elements and recorded, opaque update-proof and same-ratio predicates: acceptance implies the challenge chains to the previous contribution's hash, sizes agree, and exactly the reference predicates were evaluated to true on exactly the reference operands (which proof, which tag, which previous/next values, all power vectors); the chain verifies i against i-1 and seals the last.",
                        design_ref="DESIGN.md §3 C18",
                        assumptions=["soundness of the update proofs of knowledge and same-ratio checks (gnark-crypto) - recorded as predicates", "the transcript hash of a contribution is an opaque per-object value", "contributions are well-formed as guaranteed by ReadFrom (one update proof per commitment)"],
                        outside=["Seal's parameter update, Lagrange conversion and key extraction (FFT/MSM on curves)", "byte-level tampering below the decoders", "VerifyPhase2's evaluation of the circuit (initPhase2)"],
                        expect_reach=reach)
