"""E-CS checks (C04, C05, C14): compile harness circuits with the REAL frontend from
/repo's current tree, decide SOUND / HONEST queries with the SAT solver, replay
every counterexample against the real solver, classify against known findings."""
import json, os, sys, time, subprocess, collections
import common
from common import OUT, VERIF, EXIT_OK, EXIT_VIOLATION, EXIT_INCONCLUSIVE

ENGINE = os.path.join(VERIF, "engine", "cs2smt")

CONFIG = {
    "C04": dict(suites="core,comp", queries="honest",
                judged=("honest", "honest-witness", "forward-consistent", "forward-sound", "compile-reject"),
                title="compiled systems compute what the circuit specifies (completeness / functional correctness / compile-option independence)"),
    "C05": dict(suites="core,comp", queries="sound", judged=("sound", "sound-witness"),
                title="emitted constraints admit no spec-violating assignment (all hint/internal wires adversarial)"),
    "C14": dict(suites="std", queries="sound,honest",
                judged=("sound", "sound-witness", "honest", "honest-witness", "forward-consistent", "compile-reject"),
                title="std comparison / selection gadgets: exact semantics, no second solution"),
}


def build_exporter():
    return common.build_go(os.path.join(ENGINE, "export"), "cs2smt-export", "verif/cs2smt")


def setup():
    binp, dt = build_exporter()
    print("built exporter in %.1fs" % dt)
    # solver present?
    for s in ("z3", "z3-new"):
        p = subprocess.run([s, "--version"], capture_output=True, text=True)
        print(s, p.stdout.strip())
    return 0


def run_export(binp, tier, suites, outp, all_thresholds):
    env = dict(common.GOENV)
    if all_thresholds:
        env["VERIF_ALL_THRESHOLDS"] = "1"
    common.sh([binp, "-mode", "export", "-tier", tier, "-suites", suites, "-out", outp], env=env)


def native_replay(binp, reqs):
    """runs the real compiled systems / real solver on concrete requests"""
    if not reqs:
        return []
    rq = os.path.join(OUT, "tmp", "replay_req_%d.jsonl" % os.getpid())
    rs = os.path.join(OUT, "tmp", "replay_resp_%d.jsonl" % os.getpid())
    with open(rq, "w") as f:
        for r in reqs:
            f.write(json.dumps(r) + "\n")
    common.sh([binp, "-mode", "solve", "-req", rq, "-out", rs])
    out = [json.loads(l) for l in open(rs)]
    os.unlink(rq)
    os.unlink(rs)
    return out


def request_of(r):
    cex = r.get("cex") or {}
    req = dict(name=r["prog"], builder=r["builder"], threshold=r["threshold"],
               **{"in": cex.get("inputs", []), "out": cex.get("outputs", [])})
    if r["query"] == "sound":
        req["hints"] = cex.get("hints", {})
        req["wires"] = cex.get("wires", [])
    return req


def reproduced(r, resp):
    """does the native run confirm the counterexample?"""
    q = r["query"]
    if q == "sound":
        # a spec-violating assignment is accepted by the real system
        return bool(resp.get("ok")) or bool(resp.get("rowsOK"))
    if q == "honest":
        # the real solver fails on an input the documentation says must work
        return not resp.get("ok")
    if q == "forward-sound":
        # the real solver succeeds on inputs / outputs outside the documented relation
        return bool(resp.get("ok"))
    if q == "compile-reject":
        return (resp.get("error") or "").startswith("compile:")
    return False


def match_finding(findings, prop, r, progs):
    """returns the id of the known finding this counterexample is an instance of, or None"""
    prog = progs[r["prog"]]
    ops = [s["op"] for s in prog["steps"]]
    cex = r.get("cex") or {}
    for f in findings:
        if f.get("status") != "known":
            continue
        m = f.get("match", {})
        if m.get("engine") != "ecs" or r["query"] not in m.get("queries", []):
            continue
        if m.get("kind") == "ternary-alias":
            # aliased ternary decomposition: all digits are trits, they recompose to value + k*p, k >= 1
            if len(ops) == 1 and ops[0] == "toternary" and cex.get("outputs") is not None:
                n = prog["steps"][0]["params"][0]
                if 3 ** n <= 47:
                    continue
                trits = cex["outputs"]
                if all(0 <= t <= 2 for t in trits):
                    v = sum(t * 3 ** i for i, t in enumerate(trits))
                    if v >= 47:
                        return f["id"]
    return None


def run(prop, tier, collect=False):
    """collect=True: do not print VIOLATION lines / write evidence; return (violations [(path, text)], inconclusive [str], coverage)
    so that an E-SSA part of the same property can be merged (C14)."""
    t0 = time.time()
    cfg = CONFIG[prop]
    seed = common.seed_from_env()
    binp, bdt = build_exporter()
    sysf = os.path.join(OUT, "tmp", "%s_systems.jsonl" % prop)
    hintf = os.path.join(OUT, "tmp", "%s_hints.json" % prop)
    resf = os.path.join(OUT, "tmp", "%s_results.jsonl" % prop)
    run_export(binp, tier, cfg["suites"], sysf, all_thresholds=(tier == "thorough" and prop in ("C04", "C05")))
    common.sh([binp, "-mode", "hints", "-seed", str(seed), "-out", hintf])
    cmd = ["python3-vt", os.path.join(ENGINE, "cs2smt.py"), "--hints", hintf, "--systems", sysf, "--out", resf,
           "--queries", cfg["queries"], "--timeout", "300" if tier == "thorough" else "120"]
    if tier == "thorough":
        cmd += ["--solvers", "z3"]
    p = subprocess.run(cmd, capture_output=True, text=True, env=dict(os.environ, VERIF_TMP=os.path.join(OUT, "tmp")))
    if p.returncode != 0:
        print(p.stdout[-3000:], p.stderr[-3000:])
        print("INCONCLUSIVE property=%s reason=encoder-crash" % prop)
        return EXIT_INCONCLUSIVE
    progs = {}
    for l in open(sysf):
        rec = json.loads(l)
        progs[rec["prog"]["name"]] = rec["prog"]
    results = [json.loads(l) for l in open(resf)]
    judged = [r for r in results if r["query"] in cfg["judged"] or r["query"] == "encode"]
    counts = collections.Counter()
    bad, inconclusive = [], []
    solver_s = 0.0
    for r in judged:
        solver_s += r.get("time", 0)
        counts["%s:%s" % (r["query"], r["result"])] += 1
        if r["expect"] == "n/a":
            continue
        if r["result"] == r["expect"]:
            continue
        if r["result"] == "sat" and r["query"] in ("sound", "honest", "compile-reject", "forward-sound"):
            bad.append(r)
        else:
            inconclusive.append(r)
    # replay candidates against the real code
    resps = native_replay(binp, [request_of(r) for r in bad])
    findings = common.load_findings()
    known = collections.defaultdict(list)
    violations = []
    for r, resp in zip(bad, resps):
        if not reproduced(r, resp):
            r["replay"] = resp
            inconclusive.append(r)
            continue
        fid = match_finding(findings, prop, r, progs)
        if fid:
            known[fid].append(r)
        else:
            violations.append((r, resp))
    for fid, rs in known.items():
        f = [x for x in findings if x["id"] == fid][0]
        print("KNOWN-FINDING: property=%s %s: %s (%d counterexamples replayed, e.g. %s/%s inputs=%s outputs=%s)" % (
            prop, fid, f["what"], len(rs), rs[0]["prog"], rs[0]["builder"], rs[0]["cex"].get("inputs"), rs[0]["cex"].get("outputs")))
    vpaths = []
    collected = []
    for n, (r, resp) in enumerate(violations):
        path = common.write_cex(prop, 500 + n if collect else n, dict(engine="ecs", property=prop, query=r["query"], request=request_of(r), result=r, native=resp))
        vpaths.append(path)
        text = "%s %s/%s th=%d inputs=%s outputs=%s native=%s" % (
            r["query"], r["prog"], r["builder"], r["threshold"], r["cex"].get("inputs"), r["cex"].get("outputs"),
            ("ok" if resp.get("ok") else (resp.get("error") or "")[:80]))
        if collect:
            if n < 20:
                collected.append((path, text))
        elif n < 20:
            print("VIOLATION property=%s replay=%s   # %s" % (prop, path, text))
    inc_lines = ["%s %s/%s th=%s result=%s note=%s" % (r["query"], r["prog"], r["builder"], r.get("threshold"), r["result"], str(r.get("note") or r.get("replay") or "")[:300]) for r in inconclusive[:20]]
    if not collect:
        for l in inc_lines:
            print("INCONCLUSIVE property=%s %s" % (prop, l))
    # evidence
    nvar = len({(r["prog"], r["builder"], r["threshold"]) for r in judged})
    nprog = len({r["prog"] for r in judged})
    nontrivial = len({(r["prog"], r["builder"], r["threshold"]) for r in judged if r.get("rows", 0) >= 1})
    obligations = sum(1 for r in judged if r["expect"] in ("unsat", "sat"))
    discharged = sum(1 for r in judged if r["expect"] in ("unsat", "sat") and r["result"] == r["expect"])
    samples = []
    for r in judged[:: max(1, len(judged) // 6)][:6]:
        samples.append({k: r[k] for k in ("prog", "builder", "threshold", "query", "result", "expect", "rows", "wires", "vars", "clauses", "time") if k in r})
    splits = [r for r in judged if "split" in r]
    coverage = dict(
        explanation=("Bounded solver verdicts over GF(47): every harness circuit is compiled by the real frontend from /repo's working tree "
                     "(frontend.CompileU32 with the r1cs and scs builders), the emitted rows/gates/hint instructions are read from the real objects, "
                     "one-hot CNF encoding (p^2 clauses per add/mul node), decided by z3's SAT core for ALL values of all free wires. "
                     "unsat = no violating assignment exists in this field for this program; nothing is claimed for programs outside the enumerated space or other fields. "
                     + cfg["title"]),
        functions_encoded=["frontend.CompileU32", "frontend/cs/r1cs builder", "frontend/cs/scs builder", "std/math/bits", "std/math/cmp", "std/selector",
                           "constraint.Blueprint*.Decompress*", "registered hint functions (tabulated from the real functions)"],
        bounds=dict(field="GF(47) (constraint.U32 / tinyfield instantiation)", tier=tier, suites=cfg["suites"], queries=cfg["queries"],
                    operand_kinds="constants {0,1,5,46(+2)}, public, secret, 2x+3, product wire",
                    compress_thresholds="default (300) + listed per program" + (" + {1,2} for every program" if tier == "thorough" and prop in ("C04", "C05") else "")),
        programs=nprog, variants=nvar,
        obligations=obligations, discharged=discharged,
        evaluations=len(judged), distinct_nontrivial=nontrivial,
        rule="one evaluation = one solver query on one (program, builder, threshold) variant; non-trivial = the compiled system has at least one constraint row",
        result_counts=dict(counts), case_split_queries=len(splits),
        solver="z3 -dimacs (4.8.12)", solver_seconds=round(solver_s, 1), build_seconds=round(bdt, 1),
        disagreements_checked=len(bad), replayed_natively=len(bad), known_finding_instances={k: len(v) for k, v in known.items()},
        inconclusive=len(inconclusive),
        samples=samples,
        stubs=["hint functions are not stubbed in SOUND (their outputs are free); in HONEST they are tables of the real functions (arity<=2) or hand models validated on 3000 samples of the real function"],
        outside=["other fields", "programs beyond the enumerated single-op / composition space", "the Go solver itself (abstract forward model; C06 checks the Go code)"],
    )
    assumptions = ["gnark-crypto/tinyfield arithmetic implements GF(47)", "the builders are field-generic (the U32 instantiation exercises the same source as U64)",
                   "HONEST uses an abstract model of the solver's row-solving rule (validated by C06 on the Go code)", "z3's SAT core is sound"]
    if collect:
        print("%s %s (E-CS part): %d variants, %d queries, %d discharged/%d, violations=%d known=%d inconclusive=%d, %.0fs" % (
            prop, tier, nvar, len(judged), discharged, obligations, len(violations), sum(len(v) for v in known.values()), len(inconclusive), time.time() - t0))
        return collected, inc_lines, dict(ecs=coverage, ecs_assumptions=assumptions)
    common.write_evidence(prop, tier, seed, "other", coverage, assumptions, time.time() - t0, len(violations))
    print("%s %s: %d variants, %d queries, %d discharged/%d, violations=%d known=%d inconclusive=%d, %.0fs" % (
        prop, tier, nvar, len(judged), discharged, obligations, len(violations), sum(len(v) for v in known.values()), len(inconclusive), time.time() - t0))
    if violations:
        return EXIT_VIOLATION
    if inconclusive:
        return EXIT_INCONCLUSIVE
    return EXIT_OK


def replay_file(payload):
    binp, _ = build_exporter()
    req = payload["request"]
    resp = native_replay(binp, [req])[0]
    r = dict(query=payload["query"])
    print(json.dumps(resp)[:2000])
    if reproduced(r, resp):
        print("REPRODUCED: %s counterexample confirmed against the real code" % payload["query"])
        return EXIT_VIOLATION
    print("not reproduced")
    return EXIT_OK


# ---------------------------------------------------------------------------
# MASKED query for in-circuit commitments (part of C20, called from essa.c20)

def commit_mask(prop, tier, query="masked"):
    """query 'masked' (C20, r1cs) or 'qcp-sound' (C02, scs). returns (violations [(path, text)], inconclusive [str], coverage dict)"""
    binp, bdt = build_exporter()
    sysf = os.path.join(OUT, "tmp", "%s_commit_systems.jsonl" % prop)
    resf = os.path.join(OUT, "tmp", "%s_commit_results.jsonl" % prop)
    run_export(binp, tier, "commit", sysf, all_thresholds=False)
    p = subprocess.run(["python3-vt", os.path.join(ENGINE, "commitmask.py"), "--systems", sysf, "--out", resf, "--timeout", "120"],
                       capture_output=True, text=True, env=dict(os.environ, VERIF_TMP=os.path.join(OUT, "tmp")))
    if p.returncode != 0:
        return [], ["commit-mask encoder crashed: " + (p.stderr or p.stdout)[-400:]], {}
    results = [json.loads(l) for l in open(resf)]
    results = [r for r in results if r["query"] == query]
    violations, inconclusive = [], []
    solver_s = 0.0
    if query == "qcp-sound":
        for r in results:
            solver_s += r.get("time", 0)
            if r["result"] in ("unsat", "skipped"):
                continue
            if r["result"] == "sat":
                path = common.write_cex(prop, 900 + len(violations), dict(engine="ecs-mask", property=prop, prog=r["prog"], commitment=None, query=query, result=r))
                violations.append((path, "qcp-sound %s/scs: with the BSB22 terms free on the rows the commitments list (Committed = %s) the gates admit inputs=%s outputs=%s that violate the meaning of an ordinary operation: the key's Qcp selects a row that is not a commitment row | re-decided by ./check --replay" % (
                    r["prog"], r.get("committed"), r["cex"]["inputs"], r["cex"]["outputs"])))
            else:
                inconclusive.append("qcp-sound %s: %s %s" % (r["prog"], r["result"], r.get("note", "")))
        if not [r for r in results if r["result"] == "unsat"]:
            inconclusive.append("qcp-sound: no program decided")
        cov = dict(qcp_sound=dict(
            explanation="E-CS QCP-SOUND query: circuits mixing ordinary gates with 1..3 in-circuit commitments (constants among the committed arguments included) compiled by the real SCS builder over GF(47); the rows a commitment lists (where the key's Qcp_i is 1) and its commitment row get a free prover-chosen term; the gates must still force the meaning of the ordinary operations (unsat)",
            programs=len({r["prog"] for r in results}), unsat=sum(1 for r in results if r["result"] == "unsat"), skipped=sum(1 for r in results if r["result"] == "skipped"),
            sat=len(violations), solver_seconds=round(solver_s, 2), functions_encoded=["frontend/cs/scs builder.Commit (compiled systems)", "constraint.PlonkCommitments"]))
        return violations, inconclusive, cov
    for n, r in enumerate(results):
        solver_s += r.get("time", 0)
        if r["result"] == "sat":
            continue
        if r["result"] == "unsat":
            path = common.write_cex(prop, 900 + len(violations), dict(engine="ecs-mask", property=prop, prog=r["prog"], commitment=r.get("commitment"), result=r))
            violations.append((path, "masked %s/r1cs commitment #%s: privately committed wires %s are determined by the circuit's inputs (no satisfying assignment pair with equal inputs differs on them): the Pedersen commitment is a deterministic function of the witness | re-decided by ./check --replay" % (
                r["prog"], r.get("commitment"), r.get("private_committed"))))
        else:
            inconclusive.append("commit-mask %s commitment %s: %s %s" % (r["prog"], r.get("commitment"), r["result"], r.get("note", "")))
    if not results:
        inconclusive.append("commit-mask: no commitment program compiled")
    cov = dict(commit_mask=dict(
        explanation="E-CS MASKED query: circuits with 1..3 in-circuit commitments compiled by the real R1CS builder over GF(47); for every commitment the solver must find two satisfying assignments with equal inputs that differ on a privately committed wire (the fresh random mask); unsat = the commitment is a deterministic function of the witness",
        programs=len({r["prog"] for r in results}), commitments=len(results), sat=sum(1 for r in results if r["result"] == "sat"), unsat=len(violations),
        solver_seconds=round(solver_s, 2), functions_encoded=["frontend/cs/r1cs builder.Commit (compiled systems)", "constraint.Groth16Commitments"]))
    return violations, inconclusive, cov


def replay_mask(payload):
    binp, _ = build_exporter()
    sysf = os.path.join(OUT, "tmp", "replay_commit_systems.jsonl")
    resf = os.path.join(OUT, "tmp", "replay_commit_results.jsonl")
    run_export(binp, "thorough", "commit", sysf, all_thresholds=False)
    common.sh(["python3-vt", os.path.join(ENGINE, "commitmask.py"), "--systems", sysf, "--out", resf, "--timeout", "120"], env=dict(os.environ, VERIF_TMP=os.path.join(OUT, "tmp")))
    for l in open(resf):
        r = json.loads(l)
        if payload.get("query") == "qcp-sound":
            if r["prog"] == payload["prog"] and r["query"] == "qcp-sound":
                print(json.dumps(r))
                if r["result"] == "sat":
                    print("REPRODUCED: the system compiled from the current tree still admits a spec-violating assignment with free BSB22 terms")
                    return EXIT_VIOLATION
                print("not reproduced")
                return EXIT_OK
            continue
        if r["query"] == "masked" and r["prog"] == payload["prog"] and r.get("commitment") == payload["commitment"]:
            print(json.dumps({k: v for k, v in r.items() if k != "witness"}))
            if r["result"] == "unsat":
                print("REPRODUCED: the system compiled from the current tree still admits no masked pair for this commitment")
                return EXIT_VIOLATION
            print("not reproduced")
            return EXIT_OK
    print("program not found")
    return EXIT_OK
