#!/usr/bin/env python3-vt
"""E-CS: constraint systems of real gnark circuits as solver problems.

Reads the JSON written by the Go exporter (the *real* compiled R1CS / sparse
R1CS objects), encodes every wire as a finite-domain value over GF(p) (fd.py),
every emitted constraint as clauses, and decides with z3's SAT core

  SOUND   : exists wires (inputs, outputs, hint outputs, internal wires free):
            all constraints hold  and  not documented-relation(inputs, outputs)
            -> must be unsat
  HONEST  : exists inputs/outputs: documented-relation holds and the forward
            solve (abstract model of the solver + models of the hint
            functions) fails -> must be unsat
  FWD     : the forward-solved assignment satisfies every emitted constraint
            whenever no failure is flagged -> negation must be unsat
  witness twins of SOUND/HONEST (must be sat) as vacuity guards.
"""
import json, sys, time, os
sys.path.insert(0, os.path.dirname(os.path.abspath(__file__)))
from fd import FD

P = 47


class Unsupported(Exception):
    pass


LISTKEYS = ("inPublic", "steps", "outs", "args", "params", "public", "secret", "insts", "levels", "coeffs", "L", "R", "O", "inputs", "variants", "thresholds")


def denull(o):
    """Go encodes nil slices as null"""
    if isinstance(o, dict):
        for k in list(o.keys()):
            if o[k] is None and k in LISTKEYS:
                o[k] = []
            else:
                denull(o[k])
        if o.get("kind") == "r1c":
            for k in ("L", "R", "O"):
                o.setdefault(k, [])
    elif isinstance(o, list):
        for x in o:
            denull(x)
    return o


# ---------------------------------------------------------------------------
# reference semantics of every op: args (field values) -> dict
#   ok    : literal - the documented assertions of the call hold
#   outs  : list    - documented results (meaningful where ok)
#   sound : optional function(out_wires)->literal overriding "ok and outs==spec"
#   honest_pred : optional function(out_wires)->literal, what honest outputs must satisfy

def spec_op(F, op, pr, a):
    p = F.p
    one = lambda v, ok=None: dict(ok=F.T if ok is None else ok, outs=[v])
    if op == "add":
        return one(F.sum(a))
    if op == "sub":
        return one(F.sub(a[0], F.sum(a[1:])))
    if op == "mul":
        r = a[0]
        for x in a[1:]:
            r = F.mul(r, x)
        return one(r)
    if op == "neg":
        return one(F.neg(a[0]))
    if op == "mulacc":
        return one(F.add(a[0], F.mul(a[1], a[2])))
    if op == "div":
        return one(F.mul(a[0], F.finv(a[1])), -F.eqc(a[1], 0))
    if op == "inverse":
        return one(F.finv(a[0]), -F.eqc(a[0], 0))
    if op == "divunchecked":
        x, y = a[0], a[1]
        q = F.mul(x, F.finv(y))
        ynz = -F.eqc(y, 0)
        ok = F.OR(ynz, F.eqc(x, 0))
        # documented exception: 0/0 -> the returned value (0) is unconstrained
        return dict(ok=ok, outs=[q], sound=lambda o: F.AND(ok, F.IMP(ynz, F.eq(o[0], q))))
    if op in ("tobinary", "tobinary_default"):
        n = pr[0] if op == "tobinary" else (p - 1).bit_length()
        x = a[0]
        ok = F.pred(("ltc", 1 << n), lambda i: i < (1 << n), x)
        return dict(ok=ok, outs=[F.unop(("bit", i), [(v >> i) & 1 for v in range(p)], x) for i in range(n)])
    if op == "frombinary":
        ok = F.AND([F.isbool(x) for x in a])
        return one(F.lincomb([(pow(2, i, p), x) for i, x in enumerate(a)]), ok)
    if op == "toternary":
        n = pr[0]
        x = a[0]
        ok = F.pred(("ltc", 3 ** n), lambda i: i < 3 ** n, x)
        return dict(ok=ok, outs=[F.unop(("trit", i), [(v // 3 ** i) % 3 for v in range(p)], x) for i in range(n)])
    if op == "fromternary":
        ok = F.AND([F.pred("istrit", lambda i: i <= 2, x) for x in a])
        return one(F.lincomb([(pow(3, i, p), x) for i, x in enumerate(a)]), ok)
    if op in ("xor", "or", "and"):
        x, y = a[0], a[1]
        ok = F.AND(F.isbool(x), F.isbool(y))
        x1, y1 = F.eqc(x, 1), F.eqc(y, 1)
        if op == "xor":
            r = F.b2f(-F.IFF(x1, y1))
        elif op == "or":
            r = F.b2f(F.OR(x1, y1))
        else:
            r = F.b2f(F.AND(x1, y1))
        return one(r, ok)
    if op == "select":
        return one(F.ite(F.eqc(a[0], 1), a[1], a[2]), F.isbool(a[0]))
    if op == "lookup2":
        b0, b1 = F.eqc(a[0], 1), F.eqc(a[1], 1)
        r = F.ite(b1, F.ite(b0, a[5], a[4]), F.ite(b0, a[3], a[2]))
        return one(r, F.AND(F.isbool(a[0]), F.isbool(a[1])))
    if op == "iszero":
        return one(F.b2f(F.eqc(a[0], 0)))
    if op == "cmp":
        x, y = a[0], a[1]
        return one(F.ite(F.eq(x, y), 0, F.ite(F.lt(y, x), 1, p - 1)))
    if op == "assert_eq":
        return dict(ok=F.eq(a[0], a[1]), outs=[])
    if op == "assert_diff":
        return dict(ok=F.ne(a[0], a[1]), outs=[])
    if op == "assert_bool":
        return dict(ok=F.isbool(a[0]), outs=[])
    if op == "assert_crumb":
        return dict(ok=F.pred("iscrumb", lambda i: i < 4, a[0]), outs=[])
    if op == "assert_le":
        return dict(ok=F.le(a[0], a[1]), outs=[])
    if op == "plonk_eval":
        qL, qR, qM, qC = pr
        return one(F.sum([F.lincomb([(qL, a[0]), (qR, a[1])], qC), F.mul(qM % p, F.mul(a[0], a[1]))]))
    if op == "plonk_constraint":
        qL, qR, qO, qM, qC = pr
        e = F.sum([F.lincomb([(qL, a[0]), (qR, a[1]), (qO, a[2])], qC), F.mul(qM % p, F.mul(a[0], a[1]))])
        return dict(ok=F.eqc(e, 0), outs=[])
    if op == "cmp_isless":
        return one(F.b2f(F.lt(a[0], a[1])))
    if op == "cmp_islesseq":
        return one(F.b2f(F.le(a[0], a[1])))
    if op == "cmp_isequal":
        return one(F.b2f(F.eq(a[0], a[1])))
    if op in ("cmp_islessbinary", "cmp_islesseqbinary"):
        n = pr[0]
        assert (1 << n) <= p
        ok = F.AND([F.isbool(x) for x in a])
        ia = F.lincomb([(1 << i, x) for i, x in enumerate(a[:n])])
        ib = F.lincomb([(1 << i, x) for i, x in enumerate(a[n:])])
        r = F.lt(ia, ib) if op == "cmp_islessbinary" else F.le(ia, ib)
        return one(F.b2f(r), ok)
    if op.startswith("bcmp_"):
        return spec_bcmp(F, op, pr, a)
    if op == "mux":
        sel, ins = a[0], a[1:]
        n = len(ins)
        return one(F.select(sel, ins), F.pred(("ltc", n), lambda i: i < n, sel))
    if op == "decoder":
        n = pr[0]
        sel = a[0]
        return dict(ok=F.pred(("ltc", n), lambda i: i < n, sel), outs=[F.b2f(F.eqc(sel, i)) for i in range(n)])
    if op == "binarymux":
        n = pr[0]
        bits_, ins = a[:n], a[n:]
        ok = F.AND([F.isbool(x) for x in bits_])
        idx = F.lincomb([(1 << i, x) for i, x in enumerate(bits_)])
        return one(F.select(idx, ins), ok)
    if op in ("map", "keydecoder"):
        q = a[0]
        if op == "map":
            n = pr[0]
            keys, vals = a[1:1 + n], a[1 + n:]
        else:
            keys, vals = a[1:], None
            n = len(keys)
        match = [F.eq(q, k) for k in keys]
        ok = F.OR(match)
        unique = F.count_eq1(match)
        if op == "map":
            r = 0
            for i in range(n - 1, -1, -1):
                r = F.ite(match[i], vals[i], r)
            # several equal keys: output undefined (documented)
            return dict(ok=ok, outs=[r], sound=lambda o: F.AND(ok, F.IMP(unique, F.eq(o[0], r))),
                        honest_pred=lambda o: F.AND(unique, F.eq(o[0], r)))
        outs = [F.b2f(m) for m in match]
        hp = lambda o: F.AND([F.IMP(-match[i], F.eqc(o[i], 0)) for i in range(n)] +
                             [F.IMP(unique, F.AND([F.eq(o[i], outs[i]) for i in range(n)]))])
        return dict(ok=ok, outs=outs, sound=lambda o: F.AND(ok, hp(o)), honest_pred=lambda o: F.AND(unique, hp(o)))
    if op == "commit":
        # the commitment value is whatever the backend injects: no functional meaning for the circuit
        return dict(ok=F.T, outs=[F.fresh()], sound=lambda o: F.T)
    if op == "bitslice":
        # std/math/bitslice.Partition: v = lower + 2^split*upper, lower < 2^split, upper < 2^(k-split),
        # k = nbDigits if given, the field's bit length otherwise; v is the canonical representative
        split, nd = pr
        x = a[0]
        ok = F.pred(("ltc", 1 << nd), lambda i: i < (1 << nd), x) if nd > 0 else F.T
        lo = F.unop(("bslo", split), [v & ((1 << split) - 1) for v in range(p)], x)
        hi = F.unop(("bshi", split), [v >> split for v in range(p)], x)
        return dict(ok=ok, outs=[lo, hi])
    if op == "partition":
        right = pr[0] != 0
        piv, ins = a[0], a[1:]
        n = len(ins)
        outs = []
        for i in range(n):
            keep = F.pred(("lec", i), lambda v, i=i: v <= i, piv) if right else F.pred(("gtc", i), lambda v, i=i: v > i, piv)
            outs.append(F.ite(keep, ins[i], 0))
        return dict(ok=F.pred(("lec", n), lambda v: v <= n, piv), outs=outs)
    if op == "slice":
        st, en, ins = a[0], a[1], a[2:]
        n = len(ins)
        outs = [F.ite(F.AND(F.pred(("lec", i), lambda v, i=i: v <= i, st), F.pred(("gtc", i), lambda v, i=i: v > i, en)), ins[i], 0) for i in range(n)]
        return dict(ok=F.AND(F.pred(("lec", n), lambda v: v <= n, st), F.pred(("lec", n), lambda v: v <= n, en)), outs=outs)
    raise KeyError("no spec for op " + op)


def spec_bcmp(F, op, pr, a):
    """Bounded comparator, from the documentation of NewBoundedComparator.
    U = absDiffUpp, L = U.BitLen(). With x = (a-b) mod P the documentation's
    three regimes give, for P > 2^(L+1):
       x <= U                : a >= b, a-b = x          (must work)
       U < x <= 2^L          : a > b or unsatisfiable
       2^L < x < P-2^L       : unsatisfiable
       P-2^L <= x < P-U      : a < b or unsatisfiable
       x >= P-U              : a < b                    (must work)
    """
    p = F.p
    U = pr[0]
    L = U.bit_length()
    assert p > (1 << (L + 1))
    A, B = a[0], a[1]

    def regime(x):
        lt_must = F.pred(("gec", p - U), lambda v: v >= p - U, x)
        ge_may = F.pred(("lec", 1 << L), lambda v: v <= (1 << L), x)
        lt_may = F.pred(("gec", p - (1 << L)), lambda v: v >= p - (1 << L), x)
        ge_must = F.pred(("lec", U), lambda v: v <= U, x)
        return ge_must, lt_must, ge_may, lt_may

    if op in ("bcmp_isless", "bcmp_min"):
        x = F.sub(A, B)
        ge_must, lt_must, ge_may, lt_may = regime(x)
        if op == "bcmp_isless":
            r_ge, r_lt = 0, 1
        else:
            r_ge, r_lt = B, A
        must = F.OR(ge_must, lt_must)
        out = F.ite(lt_must, r_lt, r_ge)
        return dict(ok=must, outs=[out],
                    sound=lambda o: F.OR(F.AND(ge_may, F.eq(o[0], r_ge)), F.AND(lt_may, F.eq(o[0], r_lt))))
    if op == "bcmp_islesseq":
        # IsLessEq(a,b) = IsLess(a, b+1); documented domain in terms of y = a-b
        y = F.sub(A, B)
        x = F.sub(y, 1)
        ge_must, lt_must, ge_may, lt_may = regime(x)
        must = F.pred(("absle", U), lambda v: v <= U or v >= p - U, y)
        out = F.b2f(F.pred(("le0", U), lambda v: v == 0 or v >= p - U, y))
        return dict(ok=must, outs=[out],
                    sound=lambda o: F.OR(F.AND(ge_may, F.eqc(o[0], 0)), F.AND(lt_may, F.eqc(o[0], 1))))
    if op in ("bcmp_assert_lesseq", "bcmp_assert_less"):
        # satisfiable only if a <= b (resp. a < b): x = b-a (resp. b-a-1) must be "non-negative"
        x = F.sub(B, A)
        y = F.sub(A, B)
        if op == "bcmp_assert_less":
            x = F.sub(x, 1)
            must = F.pred(("gec", p - U), lambda v: v >= p - U, y)  # a<b with |a-b|<=U
        else:
            must = F.pred(("le0", U), lambda v: v == 0 or v >= p - U, y)
        ge_must, lt_must, ge_may, lt_may = regime(x)
        return dict(ok=must, outs=[], sound=lambda o: ge_may)
    raise KeyError(op)


# ---------------------------------------------------------------------------

class System:
    def __init__(self, js, p=P, coeff_map=None):
        self.js = js
        self.p = p
        self.r1cs = js["type"] == "r1cs"
        self.nw = js["nbPublic"] + js["nbSecret"] + js["nbInternal"]
        if coeff_map is None:
            assert js["field"] == str(p), "field mismatch"
            self.coeffs = [int(c) for c in js["coeffs"]]
        else:
            self.coeffs = [coeff_map(int(c)) for c in js["coeffs"]]
        self.names = {}
        for i, n in enumerate(js["public"]):
            self.names[n] = i
        for i, n in enumerate(js["secret"]):
            self.names[n] = js["nbPublic"] + i
        self.ninputs = js["nbPublic"] + js["nbSecret"]

    def le(self, F, terms, val):
        pairs, const = [], 0
        for cid, vid in terms:
            c = self.coeffs[cid]
            if vid < 0:
                const = (const + c) % self.p
            else:
                if val[vid] is None:
                    raise Unsupported("unsolved wire %d in expression" % vid)
                pairs.append((c, val[vid]))
        return F.lincomb(pairs, const)

    def sparse_expr(self, F, g, val):
        xa, xb, xc = g.get("XA", 0), g.get("XB", 0), g.get("XC", 0)
        ql, qr, qo, qm, qc = [self.coeffs[g.get(k, 0)] for k in ("QL", "QR", "QO", "QM", "QC")]
        e = F.lincomb([(ql, val[xa]), (qr, val[xb]), (qo, val[xc])], qc)
        if qm % self.p:
            e = F.add(e, F.mul(qm, F.mul(val[xa], val[xb])))
        return e

    def constraint_lits(self, F, val, skip=()):
        """one literal per emitted constraint"""
        cs = []
        for gi, g in enumerate(self.js["insts"]):
            k = g["kind"]
            if gi in skip:
                continue
            if k == "r1c":
                cs.append(F.eq(F.mul(self.le(F, g["L"], val), self.le(F, g["R"], val)), self.le(F, g["O"], val)))
            elif k == "sparse":
                if g.get("Commitment", 0) != 0:
                    raise Unsupported("commitment gate")
                cs.append(F.eqc(self.sparse_expr(F, g, val), 0))
            elif k == "hint":
                pass
            else:
                raise Unsupported("instruction kind " + k + "/" + g["bp"])
        return cs

    def assert_constraints(self, F, val, skip=()):
        for gi, g in enumerate(self.js["insts"]):
            k = g["kind"]
            if gi in skip:
                continue
            if k == "r1c":
                l, r, o = self.le(F, g["L"], val), self.le(F, g["R"], val), self.le(F, g["O"], val)
                F.require_eq(F.mul(l, r), o)
            elif k == "sparse":
                if g.get("Commitment", 0) != 0:
                    raise Unsupported("commitment gate")
                F.require_eq(self.sparse_expr(F, g, val), 0)
            elif k == "hint":
                pass
            else:
                raise Unsupported("instruction kind " + k + "/" + g["bp"])

    def free_wires(self, F):
        val = [F.fresh() for _ in range(self.nw)]
        if self.r1cs:
            val[0] = 1
        return val

    # ---- SOUND encoding with elimination of uniquely determined wires ------
    def encode_sound(self, F, fixed=None):
        """All inputs and hint outputs are free. A wire that first occurs as the
        only unknown of a row in which it appears linearly with a non-zero
        constant coefficient (and not inside the product) is *defined* by that
        row (its value is forced), so it is substituted instead of being given a
        variable and a clause set; every other row is asserted. Returns
        (val, doms): doms maps a wire to a finite set of values that the asserted
        rows force it into (rows of the shape (alpha*w+beta)*(gamma*w+delta)=0)."""
        p = self.p
        fixed = fixed or {}
        val = [None] * self.nw
        doms = {}

        def free(w):
            val[w] = fixed[w] % p if w in fixed else F.fresh()

        for w in range(self.ninputs):
            free(w)
        if self.r1cs:
            val[0] = 1
        co = self.coeffs

        def single_atom(x):
            """x == alpha*w + beta for a free wire atom w -> (w, alpha, beta)"""
            t, c = F._lin(x)
            if len(t) != 1:
                return None
            (a, k), = t.items()
            for w in range(self.nw):
                if val[w] is a:
                    return (w, k, c)
            return None

        def note_roots(l, r):
            sl, sr = single_atom(l), single_atom(r)
            if sl and sr and sl[0] == sr[0]:
                w = sl[0]
                roots = {(-sl[2] * pow(sl[1], p - 2, p)) % p, (-sr[2] * pow(sr[1], p - 2, p)) % p}
                doms[w] = doms[w] & roots if w in doms else roots

        for g in self.js["insts"]:
            k = g["kind"]
            if k == "hint":
                s_, e_ = g["out"]
                for w in range(s_, e_):
                    if val[w] is None:
                        free(w)
            elif k == "r1c":
                unv = []
                for nm in ("L", "R", "O"):
                    for cid, vid in g[nm]:
                        if vid >= 0 and val[vid] is None and co[cid] % p and vid not in unv:
                            unv.append(vid)
                if len(unv) == 1:
                    w = unv[0]
                    inL = any(vid == w and co[cid] % p for cid, vid in g["L"])
                    inR = any(vid == w and co[cid] % p for cid, vid in g["R"])
                    cO = sum(co[cid] for cid, vid in g["O"] if vid == w) % p
                    if not inL and not inR and cO:
                        l, r = self.le(F, g["L"], val), self.le(F, g["R"], val)
                        rest = self.le(F, [t for t in g["O"] if t[1] != w], val)
                        val[w] = F.scale(pow(cO, p - 2, p), F.sub(F.mul(l, r), rest))
                        continue
                    for own, other in (("L", "R"), ("R", "L")):
                        if (inL if own == "L" else inR) and not (inR if own == "L" else inL) and not cO:
                            ot = self.le(F, g[other], val)
                            cw = sum(co[cid] for cid, vid in g[own] if vid == w) % p
                            if isinstance(ot, int) and ot % p and cw:
                                rest = self.le(F, [t for t in g[own] if t[1] != w], val)
                                o = self.le(F, g["O"], val)
                                val[w] = F.scale(pow(cw, p - 2, p), F.sub(F.scale(pow(ot, p - 2, p), o), rest))
                                unv = []
                            break
                    if not unv:
                        continue
                for w in unv:
                    free(w)
                l, r, o = self.le(F, g["L"], val), self.le(F, g["R"], val), self.le(F, g["O"], val)
                if isinstance(o, int) and o % p == 0:
                    note_roots(l, r)
                F.require_eq(F.mul(l, r), o)
            elif k == "sparse":
                if g.get("Commitment", 0) != 0:
                    raise Unsupported("commitment gate")
                xa, xb, xc = g.get("XA", 0), g.get("XB", 0), g.get("XC", 0)
                ql, qr, qo, qm, qc = [co[g.get(x, 0)] % p for x in ("QL", "QR", "QO", "QM", "QC")]
                lin = {}
                for w, c in ((xa, ql), (xb, qr), (xc, qo)):
                    if c:
                        lin[w] = (lin.get(w, 0) + c) % p
                prodw = {xa, xb} if qm else set()
                unv = [w for w in dict.fromkeys(list(lin.keys()) + list(prodw)) if val[w] is None]
                if len(unv) == 1 and unv[0] not in prodw and lin.get(unv[0], 0):
                    w = unv[0]
                    rest = F.lincomb([(c, val[x]) for x, c in lin.items() if x != w], qc)
                    if qm:
                        rest = F.add(rest, F.scale(qm, F.mul(val[xa], val[xb])))
                    val[w] = F.scale(p - pow(lin[w], p - 2, p), rest)
                    continue
                for w in unv:
                    free(w)
                if qm and xa == xb and not qr and not qo and not qc and not (ql and False):
                    # qL*a + qM*a*a = 0  ->  a in {0, -qL/qM}
                    for w in range(self.nw):
                        pass
                    sa = single_atom(val[xa])
                    if sa and sa[1] == 1 and sa[2] == 0:
                        roots = {0, (-ql * pow(qm, p - 2, p)) % p}
                        doms[sa[0]] = doms[sa[0]] & roots if sa[0] in doms else roots
                F.require_eq(self.sparse_expr(F, g, val), 0)
            else:
                raise Unsupported("instruction kind " + k + "/" + g["bp"])
        for w in range(self.nw):
            if val[w] is None:
                free(w)
        return val, doms

    # ---- abstract forward solve -----------------------------------------
    def forward(self, F, inputs):
        """inputs: values for wires [0, ninputs). returns (val, fails)"""
        p = self.p
        self.panics = []
        val = [None] * self.nw
        for i in range(self.ninputs):
            val[i] = inputs[i]
        fails = []
        insts = self.js["insts"]
        order = [i for lvl in self.js["levels"] for i in lvl]
        if sorted(order) != list(range(len(insts))):
            raise Unsupported("levels do not cover instructions exactly once")

        def getvalue(cid, vid):
            if cid == 0:
                return 0
            if val[vid] is None:
                raise Unsupported("computing a term with an unsolved wire (solver would panic)")
            return F.mul(self.coeffs[cid], val[vid])

        def setw(w, v):
            if val[w] is not None:
                raise Unsupported("wire %d solved twice (solver would panic)" % w)
            val[w] = v

        for idx in order:
            g = insts[idx]
            k = g["kind"]
            if k == "hint":
                ins = [self.le(F, t, val) for t in g["inputs"]]
                s, e = g["out"]
                outs = hint_model(F, g["hint"], ins, e - s)
                for j in range(e - s):
                    setw(s + j, outs[j])
            elif k == "r1c":
                loc, term = 0, None
                acc = {}
                for li, name in ((1, "L"), (2, "R"), (3, "O")):
                    pairs, const = [], 0
                    for cid, vid in g[name]:
                        c = self.coeffs[cid]
                        if vid < 0:
                            const = (const + c) % p
                            continue
                        if val[vid] is not None:
                            pairs.append((c, val[vid]))
                            continue
                        if loc != 0:
                            # the real solver panics here ("found more than one wire to instantiate"):
                            # a static failure of every solve of this system
                            self.panics.append("instruction %d: found more than one wire to instantiate" % idx)
                            fails.append(F.T)
                            if val[vid] is None:
                                val[vid] = 0
                            continue
                        loc, term = li, (cid, vid)
                    acc[li] = F.lincomb(pairs, const)
                a, b, c = acc[1], acc[2], acc[3]
                if loc == 0:
                    fails.append(F.ne(F.mul(a, b), c))
                    continue
                if loc == 1:
                    bz = F.eqc(b, 0)
                    wire = F.ite(bz, 0, F.sub(F.mul(c, F.finv(b)), a))
                    fails.append(F.AND(bz, -F.eqc(c, 0)))
                elif loc == 2:
                    az = F.eqc(a, 0)
                    wire = F.ite(az, 0, F.sub(F.mul(c, F.finv(a)), b))
                    fails.append(F.AND(az, -F.eqc(c, 0)))
                else:
                    wire = F.sub(F.mul(a, b), c)
                coeff = self.coeffs[term[0]] % p
                if coeff == 0:
                    raise Unsupported("division by 0 coefficient (solver would panic)")
                setw(term[1], F.mul(wire, F.inv[coeff]))
            elif k == "sparse":
                bp = g["bp"]
                xa, xb, xc = g.get("XA", 0), g.get("XB", 0), g.get("XC", 0)
                QL, QR, QO, QM, QC = [g.get(x, 0) for x in ("QL", "QR", "QO", "QM", "QC")]
                co = self.coeffs
                if bp == "BlueprintGenericSparseR1C":
                    if g.get("Commitment", 0) != 0:
                        continue
                    if val[xa] is None:
                        den = F.add(getvalue(QM, xb), co[QL])
                        num = F.sum([getvalue(QR, xb), getvalue(QO, xc), co[QC]])
                        # zero coefficient: satisfiable (wire := 0) iff the other terms vanish
                        fails.append(F.AND(F.eqc(den, 0), -F.eqc(num, 0)))
                        setw(xa, F.neg(F.mul(num, F.finv(den))))
                    elif val[xb] is None:
                        den = F.add(getvalue(QM, xa), co[QR])
                        num = F.sum([getvalue(QL, xa), getvalue(QO, xc), co[QC]])
                        fails.append(F.AND(F.eqc(den, 0), -F.eqc(num, 0)))
                        setw(xb, F.neg(F.mul(num, F.finv(den))))
                    elif val[xc] is None:
                        o = F.sum([F.mul(getvalue(QM, xa), getvalue(1, xb)), getvalue(QL, xa), getvalue(QR, xb), co[QC]])
                        den = co[QO] % p
                        if den == 0:
                            fails.append(F.T)
                            setw(xc, 0)
                        else:
                            setw(xc, F.neg(F.mul(o, F.inv[den])))
                    else:
                        fails.append(-F.eqc(self.sparse_expr(F, g, val), 0))
                elif bp == "BlueprintSparseR1CAdd":
                    setw(xc, F.sum([getvalue(QL, xa), getvalue(QR, xb), co[QC]]))
                elif bp == "BlueprintSparseR1CMul":
                    setw(xc, F.mul(getvalue(QM, xa), getvalue(1, xb)))
                elif bp == "BlueprintSparseR1CBool":
                    v1, v2, v = getvalue(QL, xa), getvalue(QM, xa), getvalue(1, xa)
                    fails.append(-F.eqc(F.add(v1, F.mul(v, v2)), 0))
                else:
                    raise Unsupported("sparse blueprint " + bp)
            else:
                raise Unsupported("instruction kind " + k + "/" + g["bp"])
        if any(v is None for v in val):
            fails.append(F.T)  # "solver didn't assign a value to all wires"
            val = [0 if v is None else v for v in val]
        return val, fails


HINTS = {}  # name -> table dict, tabulated from the REAL hint functions by the exporter (mode hints)


def load_hints(path):
    for t in json.load(open(path)):
        key = (t["name"], t["nin"])
        HINTS[key] = t
    # sampled tables validate the hand-written models of the higher-arity hints
    F = FD(P)
    for (name, nin), t in HINTS.items():
        if t["exhaustive"]:
            continue
        for row in t["rows"]:
            ins, outs = row[:nin], row[nin:]
            got = hand_hint_model(F, name, list(ins), len(outs))
            got = [F.mat(g) for g in got]
            if got != list(outs):
                raise RuntimeError("model of hint %s disagrees with the real function on %r: %r vs %r" % (name, ins, got, outs))


def hint_model(F, name, ins, nout):
    p = F.p
    t = HINTS.get((name, len(ins)))
    if t is not None and t["exhaustive"] and nout <= t["nout"]:
        if len(ins) == 1:
            tabs = [[None] * p for _ in range(nout)]
            for row in t["rows"]:
                for j in range(nout):
                    tabs[j][row[0]] = row[1 + j]
            return [F.unop(("hint", name, j), tabs[j], ins[0]) for j in range(nout)]
        if len(ins) == 2:
            tabs = [[[None] * p for _ in range(p)] for _ in range(nout)]
            for row in t["rows"]:
                for j in range(nout):
                    tabs[j][row[0]][row[1]] = row[2 + j]
            return [F.binop(("hint", name, j), tabs[j], ins[0], ins[1]) for j in range(nout)]
    if not HINTS:
        raise Unsupported("hint tables not loaded")
    short = name.split("/")[-1]
    if short.split(".")[0] == "selector" and any(k[0] == name for k in HINTS):
        return hand_hint_model(F, name, ins, nout)
    raise Unsupported("no validated model for hint %s with %d inputs / %d outputs" % (name, len(ins), nout))


def hand_hint_model(F, name, ins, nout):
    """hand-written models, used only for hints of arity > 2; validated against
    samples of the real function by load_hints"""
    short = name.split("/")[-1]
    if short == "selector.muxIndicators":
        return [F.b2f(F.eqc(ins[0], i)) for i in range(nout)]
    if short == "selector.mapIndicators":
        key = ins[-1]
        return [F.b2f(F.eq(key, ins[i])) for i in range(nout)]
    if short == "selector.stepOutput":
        return [F.ite(F.pred(("gtc", i), lambda v, i=i: v > i, ins[0]), ins[1], ins[2]) for i in range(nout)]
    raise Unsupported("no model for hint " + name)


# ---------------------------------------------------------------------------

def program_spec(F, prog, ins):
    """reference semantics of a whole program on input values.
    returns dict(ok, outs, sound(outs)->lit, honest(outs)->lit)"""
    res = []
    oks = []
    special = {}
    for si, st in enumerate(prog["steps"]):
        args = []
        for a in st["args"]:
            k = a["kind"]
            if k == "const":
                args.append(a.get("c", 0) % F.p)
            elif k == "in":
                args.append(ins[a["i"]])
            elif k == "lin":
                args.append(F.lincomb([(2, ins[a["i"]])], 3))
            elif k == "prod":
                args.append(F.mul(ins[a["i"]], ins[a["j"]]))
            elif k == "step":
                if a["i"] in special:
                    raise Unsupported("non-functional step used as operand")
                args.append(res[a["i"]][a["j"]])
        sp = spec_op(F, st["op"], st.get("params") or [], args)
        if st["op"] == "divunchecked" and st["args"][1]["kind"] == "const" and st["args"][1].get("c", 0) % F.p == 0:
            # a literal zero divisor is rejected at compile time by both builders ("div by constant(0)");
            # accepted as the meaning of the call for a constant operand
            sp = dict(ok=F.F, outs=sp["outs"])
        oks.append(sp["ok"])
        res.append(sp["outs"])
        if "sound" in sp:
            special[si] = sp
    outs = [res[o["step"]][o["res"]] for o in prog["outs"]]
    ok = F.AND(oks)

    def rel(kind):
        def f(ow):
            conj = []
            for si, st in enumerate(prog["steps"]):
                if si in special:
                    idx = [k for k, o in enumerate(prog["outs"]) if o["step"] == si]
                    byres = {prog["outs"][k]["res"]: ow[k] for k in idx}
                    n = len(res[si])
                    if len(byres) != n:
                        raise Unsupported("special step with untied outputs")
                    o = [byres[r] for r in range(n)]
                    sp = special[si]
                    if kind == "sound":
                        conj.append(sp["sound"](o))
                    else:
                        conj.append(oks[si])
                        hp = sp.get("honest_pred")
                        if hp is not None:
                            conj.append(hp(o))
                        else:
                            conj.extend(F.eq(o[r], res[si][r]) for r in range(n))
                else:
                    conj.append(oks[si])
                    for k, o in enumerate(prog["outs"]):
                        if o["step"] == si:
                            conj.append(F.eq(ow[k], res[si][o["res"]]))
            return F.AND(conj)
        return f

    return dict(ok=ok, outs=outs, sound=rel("sound"), honest=rel("honest"))


def wire_maps(S, prog):
    ip = isec = 0
    inw = []
    for pub in prog["inPublic"]:
        if pub:
            inw.append(S.names["P_%d" % ip])
            ip += 1
        else:
            inw.append(S.names["S_%d" % isec])
            isec += 1
    outw = [S.names["O_%d" % k] for k in range(len(prog["outs"]))]
    return inw, outw


def hint_outputs_of(S, wires):
    """per hint name, the list of output vectors in level order (for adversarial replay through the real solver)"""
    out = {}
    insts = S.js["insts"]
    for lvl in S.js["levels"]:
        for i in lvl:
            g = insts[i]
            if g["kind"] == "hint":
                s, e = g["out"]
                out.setdefault(g["hint"], []).append([wires[w] for w in range(s, e)])
    return out


SOLVERS = ["z3"]


def solve(F, timeout_s):
    """run the primary solver (and the others for cross-checking when configured)"""
    res, model, dt = F.solve(timeout_s, SOLVERS[0])
    extra = {}
    for s in SOLVERS[1:]:
        r2, _, d2 = F.solve(timeout_s, s)
        extra[s] = r2
        dt += d2
        if r2 != res and "unknown" not in (r2, res):
            return "disagree(%s:%s,%s:%s)" % (SOLVERS[0], res, s, r2), None, dt, extra
    return res, model, dt, extra


MAXSPLIT = 6


def run_variant(prog, variant, timeout_s=120, queries=("sound", "honest"), first_timeout=None):
    """first_timeout: budget of the unsplit attempt; on timeout the query is case-split
    over wires / inputs whose domain the asserted rows (resp. the relation) restrict."""
    results = []
    name = prog["name"]
    base = dict(prog=name, builder=variant["builder"], threshold=variant["threshold"])
    nin = len(prog["inPublic"])
    first_timeout = first_timeout or min(timeout_s, 20)

    def rec(query, result, expect, dt, F=None, **kw):
        d = dict(base, query=query, result=result, expect=expect, time=round(dt, 4))
        if F is not None:
            d["vars"], d["clauses"] = F.nv, len(F.cl)
        d.update(kw)
        results.append(d)
        return d

    if "error" in variant:
        # compile-time rejection is acceptable only if no input satisfies the documented assertions
        F = FD(P)
        ins = [F.fresh() for _ in range(nin)]
        sp = program_spec(F, prog, ins)
        F.require(sp["ok"])
        r, m, dt, _ = solve(F, timeout_s)
        d = rec("compile-reject", r, "unsat", dt, F, error=variant["error"].split("\n")[0])
        if r == "sat":
            d["cex"] = dict(inputs=[F.value(m, x) for x in ins])
        return results
    S = System(variant["sys"])
    inw, outw = wire_maps(S, prog)
    base["rows"] = sum(1 for g in S.js["insts"] if g["kind"] in ("r1c", "sparse"))
    base["wires"] = S.nw

    if "sound" in queries:
        def build(fixed):
            F = FD(P)
            val, doms = S.encode_sound(F, fixed)
            sp = program_spec(F, prog, [val[w] for w in inw])
            rel = sp["sound"]([val[w] for w in outw])
            return F, val, rel, doms

        def cex_of(F, m, val):
            wires = [F.value(m, v) for v in val]
            return dict(wires=wires, inputs=[wires[w] for w in inw], outputs=[wires[w] for w in outw], hints=hint_outputs_of(S, wires))

        F, val, rel, doms = build(None)
        snap = F.snapshot()
        F.require(-rel)
        r, m, dt, _ = solve(F, first_timeout)
        d = rec("sound", r, "unsat", dt, F)
        if r == "sat":
            d["cex"] = cex_of(F, m, val)
        elif r == "unknown":
            # case split over wires forced into a two-element set by an asserted row
            cand = [w for w in sorted(doms, key=lambda w: (w >= S.ninputs, w)) if len(doms[w]) <= 2][:MAXSPLIT]
            if cand:
                import itertools
                total, cases, res = dt, 0, "unsat"
                for combo in itertools.product(*[sorted(doms[w]) for w in cand]):
                    Fc, valc, relc, _ = build(dict(zip(cand, combo)))
                    Fc.require(-relc)
                    rc, mc, dtc, _ = solve(Fc, timeout_s)
                    total += dtc
                    cases += 1
                    if rc == "sat":
                        res = "sat"
                        d["cex"] = cex_of(Fc, mc, valc)
                        break
                    if rc != "unsat":
                        res = rc
                        break
                d.update(result=res, time=round(total, 4), split=dict(wires=cand, cases=cases, domains=[sorted(doms[w]) for w in cand]))
            if d["result"] == "unknown" and inw:
                # last resort: fix the first input wire(s) to each of the p field values
                total, cases, pending = d["time"], 0, [dict()]
                res = "unsat"
                for level in range(min(2, len(inw))):
                    nxt = []
                    for fx in pending:
                        for v in range(P):
                            fixed = dict(fx)
                            fixed[inw[level]] = v
                            Fc, valc, relc, _ = build(fixed)
                            Fc.require(-relc)
                            rc, mc, dtc, _ = solve(Fc, first_timeout)
                            total += dtc
                            cases += 1
                            if rc == "sat":
                                res = "sat"
                                d["cex"] = cex_of(Fc, mc, valc)
                                break
                            if rc != "unsat":
                                nxt.append(fixed)
                        if res == "sat":
                            break
                    if res == "sat":
                        break
                    pending = nxt
                    if not pending:
                        break
                if res != "sat" and pending:
                    res = "unknown"
                d.update(result=res, time=round(total, 4), full_domain_split=dict(cases=cases))
        F.restore(snap)
        # vacuity twin: constraints together with the relation must be satisfiable
        F2 = FD(P)
        ins2 = [F2.fresh() for _ in range(nin)]
        F2.require(program_spec(F2, prog, ins2)["ok"])
        r0, _, _, _ = solve(F2, timeout_s)
        if r0 == "sat":
            F.require(rel)
            r, m, dt, _ = solve(F, timeout_s)
            rec("sound-witness", r, "sat", dt, F)
        else:
            rec("sound-witness", "n/a(%s)" % r0, "n/a", 0.0, note="the program's assertions are never satisfiable by specification")

    if "honest" in queries:
        def buildh(fixed):
            F = FD(P)
            ins = [fixed[("in", k)] if ("in", k) in fixed else F.fresh() for k in range(nin)]
            outs = [F.fresh() for _ in range(len(outw))]
            inputs = [None] * S.ninputs
            for k, w in enumerate(inw):
                inputs[w] = ins[k]
            for k, w in enumerate(outw):
                inputs[w] = outs[k]
            if S.r1cs:
                inputs[0] = 1
            if any(x is None for x in inputs):
                raise Unsupported("unmapped input wire")
            val, fails = S.forward(F, inputs)
            anyfail = F.OR(fails)
            sp = program_spec(F, prog, ins)
            rel = sp["honest"](outs)
            last_sound["rel"] = sp["sound"](outs)
            return F, ins, outs, val, anyfail, rel

        last_sound = {}

        def input_domains(limit=8):
            """for every program input, the set of values the relation allows (if at most `limit`)"""
            doms = {}
            for k in range(nin):
                F, ins, outs, val, anyfail, rel = buildh({})
                F.require(rel)
                vals = []
                while len(vals) <= limit:
                    r, m, _, _ = solve(F, timeout_s)
                    if r != "sat":
                        break
                    v = F.value(m, ins[k])
                    vals.append(v)
                    F.require(-F.eqc(ins[k], v))
                else:
                    continue
                if r == "unsat" and vals:
                    doms[k] = sorted(vals)
            return doms

        def split_run(mk_query):
            """mk_query(F, ins, outs, val, anyfail, rel) adds the query's requirements"""
            doms = input_domains()
            cand = list(doms)[:MAXSPLIT]
            if not cand:
                return None
            import itertools
            total, cases = 0.0, 0
            for combo in itertools.product(*[doms[k] for k in cand]):
                fixed = {("in", k): v for k, v in zip(cand, combo)}
                t = buildh(fixed)
                mk_query(*t)
                rc, mc, dtc, _ = solve(t[0], timeout_s)
                total += dtc
                cases += 1
                if rc == "sat":
                    return "sat", total, dict(inputs=[t[0].value(mc, x) for x in t[1]], outputs=[t[0].value(mc, x) for x in t[2]]), dict(inputs=cand, cases=cases, domains=[doms[k] for k in cand])
                if rc != "unsat":
                    return rc, total, None, dict(inputs=cand, cases=cases)
            return "unsat", total, None, dict(inputs=cand, cases=cases, domains=[doms[k] for k in cand])

        def full_split(mk_query, depth=3):
            """last resort: fix the first input(s) to each of the p field values (p, then p^2 cases)"""
            if nin == 0:
                return None
            total, cases = 0.0, 0
            pending = [dict()]
            for level in range(min(depth, nin)):
                nxt = []
                for fx in pending:
                    for v in range(P):
                        fixed = dict(fx)
                        fixed[("in", level)] = v
                        t = buildh(fixed)
                        mk_query(*t)
                        rc, mc, dtc, _ = solve(t[0], first_timeout if level + 1 < min(depth, nin) else timeout_s)
                        total += dtc
                        cases += 1
                        if rc == "sat":
                            return "sat", total, dict(inputs=[t[0].value(mc, x) for x in t[1]], outputs=[t[0].value(mc, x) for x in t[2]]), dict(full_domain_inputs=level + 1, cases=cases)
                        if rc != "unsat":
                            nxt.append(fixed)
                pending = nxt
                if not pending:
                    return "unsat", total, None, dict(full_domain_inputs=level + 1, cases=cases)
            return "unknown", total, None, dict(full_domain_inputs=min(depth, nin), cases=cases, undecided_cases=len(pending))

        F, ins, outs, val, anyfail, rel = buildh({})
        snap = F.snapshot()
        F.require(rel)
        F.require(anyfail)
        r, m, dt, _ = solve(F, first_timeout)
        d = rec("honest", r, "unsat", dt, F)
        if getattr(S, "panics", None):
            d["solver_panics"] = S.panics[:3]
        if r == "sat":
            d["cex"] = dict(inputs=[F.value(m, x) for x in ins], outputs=[F.value(m, x) for x in outs])
        elif r == "unknown":
            hq = lambda F, ins, outs, val, anyfail, rel: (F.require(rel), F.require(anyfail))
            sr = split_run(hq)
            if not sr or sr[0] == "unknown":
                sr = full_split(hq)
            if sr:
                d.update(result=sr[0], time=round(dt + sr[1], 4), split=sr[3])
                if sr[2]:
                    d["cex"] = sr[2]
        F.restore(snap)
        F.require(rel)
        F.require(-anyfail)
        r, m, dt, _ = solve(F, timeout_s)
        if r == "unsat":
            # is the relation satisfiable at all?
            F.restore(snap)
            F.require(rel)
            r0, _, _, _ = solve(F, timeout_s)
            if r0 == "unsat":
                rec("honest-witness", "n/a(unsat)", "n/a", dt)
            else:
                rec("honest-witness", r, "sat", dt, F)
        else:
            rec("honest-witness", r, "sat", dt, F)
        F.restore(snap)
        # forward-solved values satisfy the emitted constraints whenever no failure is flagged
        def fwdq(F, ins, outs, val, anyfail, rel):
            F.require(-anyfail)
            F.require(-F.AND(S.constraint_lits(F, val)))
        fwdq(F, ins, outs, val, anyfail, rel)
        r, m, dt, _ = solve(F, first_timeout)
        d = rec("forward-consistent", r, "unsat", dt, F)
        if r == "sat":
            d["cex"] = dict(inputs=[F.value(m, x) for x in ins], outputs=[F.value(m, x) for x in outs])
        elif r == "unknown":
            sr = full_split(fwdq)
            if sr:
                d.update(result=sr[0], time=round(dt + sr[1], 4), split=sr[3])
                if sr[2]:
                    d["cex"] = sr[2]
        # the converse of HONEST ("solving succeeds EXACTLY when ..."): if the honest solver succeeds, the
        # documented relation holds (implied by SOUND, which lets the hints lie; decided here with the honest hints)
        def fsq(F, ins, outs, val, anyfail, rel):
            F.require(-anyfail)
            F.require(-last_sound["rel"])
        t = buildh({})
        F, ins, outs = t[0], t[1], t[2]
        fsq(*t)
        r, m, dt, _ = solve(F, first_timeout)
        d = rec("forward-sound", r, "unsat", dt, F)
        if r == "sat":
            d["cex"] = dict(inputs=[F.value(m, x) for x in ins], outputs=[F.value(m, x) for x in outs])
        elif r == "unknown":
            sr = full_split(fsq)
            if sr:
                d.update(result=sr[0], time=round(dt + sr[1], 4), split=sr[3])
                if sr[2]:
                    d["cex"] = sr[2]
    return results


def work(item):
    prog, variant, timeout_s, queries = item
    t0 = time.time()
    try:
        return run_variant(prog, variant, timeout_s, queries)
    except Unsupported as e:
        return [dict(prog=prog["name"], builder=variant["builder"], threshold=variant["threshold"], query="encode", result="unsupported", expect="-", time=time.time() - t0, note=str(e))]
    except Exception:  # encoder bug: never a pass
        import traceback
        return [dict(prog=prog["name"], builder=variant["builder"], threshold=variant["threshold"], query="encode", result="error", expect="-", time=time.time() - t0, note=traceback.format_exc()[-800:])]


def main():
    import argparse, multiprocessing
    ap = argparse.ArgumentParser()
    ap.add_argument("--systems", required=True)
    ap.add_argument("--out", required=True)
    ap.add_argument("--queries", default="sound,honest")
    ap.add_argument("--suites", default="")
    ap.add_argument("--only", default="")
    ap.add_argument("--timeout", type=int, default=120)
    ap.add_argument("--jobs", type=int, default=os.cpu_count() or 4)
    ap.add_argument("--solvers", default="z3")
    ap.add_argument("--hints", required=True, help="hint tables written by the exporter (mode hints)")
    args = ap.parse_args()
    load_hints(args.hints)
    SOLVERS[:] = args.solvers.split(",")
    items = []
    suites = set(args.suites.split(",")) if args.suites else None
    for line in open(args.systems):
        rec = denull(json.loads(line))
        if suites and rec["prog"]["suite"] not in suites:
            continue
        if args.only and args.only not in rec["prog"]["name"]:
            continue
        for v in rec["variants"]:
            items.append((rec["prog"], v, args.timeout, tuple(args.queries.split(","))))
    items.sort(key=lambda it: -(len(it[1].get("sys", {}).get("insts", [])) if "sys" in it[1] else 0))
    t0 = time.time()
    with multiprocessing.Pool(args.jobs) as pool, open(args.out, "w") as f:
        for res in pool.imap_unordered(work, items, chunksize=1):
            for r in res:
                f.write(json.dumps(r) + "\n")
            f.flush()
    print("done %d variants in %.1fs" % (len(items), time.time() - t0))


if __name__ == "__main__":
    main()
