"""MASKED query (C20, Groth16 in-circuit commitments): for every commitment of a compiled R1CS the
vector of privately committed wires must be able to change while the circuit's inputs stay the
same (it contains a fresh random mask): SAT expected for  'two satisfying assignments with equal
public and secret inputs differ on a privately committed wire'. UNSAT means the Pedersen
commitment is a deterministic function of the witness, computable from public data and a guessed
witness. All hint outputs (mask, commitment values) are free in both copies; one-hot CNF over
GF(47), z3 SAT core."""
import json, sys, argparse, time, os
from fd import FD
from cs2smt import System, P, denull, solve, program_spec, wire_maps, Unsupported


def qcp_sound(out, base, prog, variant, timeout):
    """QCP-SOUND (C02, PLONK): the rows listed in a commitment's Committed list get a prover-chosen
    BSB22 term (qcp_i = 1 there), the commitment row gets the injected value. With those free terms
    the compiled gates must still force the functional meaning of the program's ordinary operations:
    'gates hold (with the free terms) and some output differs from its meaning' must be unsat."""
    if "error" in variant:
        out.write(json.dumps(dict(base, query="qcp-sound", result="error", expect="unsat", note=variant["error"][:300])) + "\n")
        return
    S = System(variant["sys"])
    cms = variant["sys"].get("commitments") or []
    F = FD(P)
    val = S.free_wires(F)
    nfree = 0
    for g in S.js["insts"]:
        if g["kind"] == "hint":
            continue
        if g["kind"] != "sparse":
            raise Unsupported("instruction kind " + g["kind"])
        e = S.sparse_expr(F, g, val)
        row = g.get("cOffset", 0)
        for cm in cms:
            if row in (cm.get("Committed") or []) or row == cm.get("CommitmentIndex"):
                e = F.add(e, F.fresh())
                nfree += 1
        F.require_eq(e, 0)
    inw, outw = wire_maps(S, prog)
    d = dict(base, query="qcp-sound", expect="unsat", free_terms=nfree, rows=sum(1 for g in S.js["insts"] if g["kind"] == "sparse"),
             committed=[cm.get("Committed") for cm in cms])
    try:
        sp = program_spec(F, prog, [val[w] for w in inw])
        rel = sp["sound"]([val[w] for w in outw])
    except Unsupported as ex:
        out.write(json.dumps(dict(d, result="skipped", note=str(ex))) + "\n")
        return
    F.require(-rel)
    r, m, dt, _ = solve(F, timeout)
    d.update(result=r, time=round(dt, 4), vars=F.nv, clauses=len(F.cl))
    if r == "sat":
        d["cex"] = dict(inputs=[F.value(m, val[w]) for w in inw], outputs=[F.value(m, val[w]) for w in outw])
    out.write(json.dumps(d) + "\n")


def main():
    ap = argparse.ArgumentParser()
    ap.add_argument("--systems", required=True)
    ap.add_argument("--out", required=True)
    ap.add_argument("--timeout", type=int, default=120)
    a = ap.parse_args()
    out = open(a.out, "w")
    for line in open(a.systems):
        rec = denull(json.loads(line))
        prog = rec["prog"]
        for variant in rec["variants"]:
            base = dict(prog=prog["name"], builder=variant["builder"], threshold=variant["threshold"])
            if variant["builder"] == "scs":
                qcp_sound(out, base, prog, variant, a.timeout)
                continue
            if "error" in variant:
                out.write(json.dumps(dict(base, query="masked", result="error", expect="sat", note=variant["error"][:300])) + "\n")
                continue
            S = System(variant["sys"])
            cms = variant["sys"].get("commitments") or []
            base["rows"] = sum(1 for g in S.js["insts"] if g["kind"] == "r1c")
            base["wires"] = S.nw
            if len(cms) != sum(1 for st in prog["steps"] if st["op"] == "commit"):
                out.write(json.dumps(dict(base, query="masked", result="error", expect="sat", note="commitment count %d" % len(cms))) + "\n")
                continue
            for ci, cm in enumerate(cms):
                t0 = time.time()
                F = FD(P)
                v1 = S.free_wires(F)
                v2 = S.free_wires(F)
                for w in range(S.ninputs):
                    v2[w] = v1[w]
                S.assert_constraints(F, v1)
                S.assert_constraints(F, v2)
                priv = cm.get("PrivateCommitted") or []
                diffs = [F.ne(v1[w], v2[w]) for w in priv]
                d = dict(base, query="masked", commitment=ci, private_committed=priv, commitment_wire=cm.get("CommitmentIndex"), expect="sat")
                if not diffs:
                    d.update(result="unsat", note="no privately committed wire at all", time=0.0)
                else:
                    F.require(F.OR(diffs))
                    r, m, dt, _ = solve(F, a.timeout)
                    d.update(result=r, time=round(dt, 4), vars=F.nv, clauses=len(F.cl))
                    if r == "sat":
                        d["witness"] = dict(inputs=[F.value(m, v1[w]) for w in range(S.ninputs)],
                                            committed_1=[F.value(m, v1[w]) for w in priv], committed_2=[F.value(m, v2[w]) for w in priv])
                out.write(json.dumps(d) + "\n")
    out.close()


if __name__ == "__main__":
    main()
