"""Finite-domain (one-hot) CNF layer over GF(p) for small p.

A field value is either a Python int (constant) or a tuple of p literals, exactly
one of which is true. Every add / mul node is the p^2 ternary clauses of its
operation table, every predicate a Tseitin literal. The resulting CNF is handed
to z3's SAT core (`z3 -dimacs`); this encoding is arc-consistent on every row,
which is what the algebraic refutations here need (bit-vector encodings with
bvurem do not finish on products of three unknowns).
"""
import os, subprocess, tempfile, time, hashlib


class Lin:
    """symbolic linear form  const + sum coeff*atom  (atoms are one-hot literal tuples).
    Linear expressions are kept symbolic and only materialised (in a canonical
    order) when a non-linear operation or a predicate needs them, so that equal
    expressions built in a different order share one node."""
    __slots__ = ("terms", "const", "key")

    def __init__(self, terms, const):
        self.terms = terms
        self.const = const
        self.key = (tuple(sorted((a[0], c) for a, c in terms.items())), const)

    def __hash__(self):
        return hash(self.key)

    def __eq__(self, o):
        return isinstance(o, Lin) and self.key == o.key

    def __lt__(self, o):
        return self.key < o.key


class FD:
    def __init__(self, p):
        self.p = p
        self.nv = 0
        self.cl = []  # clause strings without trailing 0
        self.cache = {}
        self.T = self.var()
        self.clause(self.T)
        self.F = -self.T
        r = range(p)
        self.addT = [[(i + j) % p for j in r] for i in r]
        self.subT = [[(i - j) % p for j in r] for i in r]
        self.mulT = [[(i * j) % p for j in r] for i in r]
        self.inv = [0] + [pow(i, p - 2, p) for i in range(1, p)]
        self.names = {}

    # ---- raw ---------------------------------------------------------------
    def var(self):
        self.nv += 1
        return self.nv

    def clause(self, *lits):
        self.cl.append(" ".join(map(str, lits)))

    def fresh(self, name=None):
        """a free field value"""
        lits = tuple(self.var() for _ in range(self.p))
        self.cl.append(" ".join(map(str, lits)))
        self._amo(lits)
        if name:
            self.names[name] = lits
        return lits

    def _amo(self, lits):
        n = len(lits)
        cl = self.cl
        for i in range(n):
            a = -lits[i]
            for j in range(i + 1, n):
                cl.append("%d %d" % (a, -lits[j]))

    def _derived(self):
        lits = tuple(self.var() for _ in range(self.p))
        return lits

    # ---- linear forms ---------------------------------------------------------
    def _lin(self, x):
        """(terms dict, const) view of any value"""
        if isinstance(x, int):
            return {}, x % self.p
        if isinstance(x, Lin):
            return x.terms, x.const
        return {x: 1}, 0

    def _mk(self, terms, const):
        terms = {a: c % self.p for a, c in terms.items() if c % self.p}
        const %= self.p
        if not terms:
            return const
        if len(terms) == 1 and const == 0:
            (a, c), = terms.items()
            if c == 1:
                return a
        return Lin(terms, const)

    def canon0(self, d):
        """d == 0  <=>  canon0(d) == 0 : scale so that the leading atom has coefficient 1"""
        if not isinstance(d, Lin):
            return d
        a0 = min(d.terms, key=lambda a: a[0])
        c = d.terms[a0]
        if c == 1:
            return d
        return self.scale(self.inv[c], d)

    def mat(self, x):
        """materialise a value into an int or a one-hot atom"""
        if not isinstance(x, Lin):
            return x
        ck = ("mat", x.key)
        z = self.cache.get(ck)
        if z is not None:
            return z
        acc = x.const
        for a, c in sorted(x.terms.items(), key=lambda t: t[0][0]):
            t = a if c == 1 else self.unop(("scale", c), self.mulT[c], a)
            if isinstance(acc, int):
                acc = t if acc == 0 else self.unop(("addc", acc), self.addT[acc], t)
            else:
                acc = self.binop("add", self.addT, acc, t, True)
        self.cache[ck] = acc
        return acc

    # ---- field functions -----------------------------------------------------
    def unop(self, key, table, x):
        """z = table[x]"""
        x = self.mat(x)
        if isinstance(x, int):
            return table[x % self.p]
        ck = ("u", key, x)
        z = self.cache.get(ck)
        if z is not None:
            return z
        p = self.p
        z = self._derived()
        pre = [[] for _ in range(p)]
        cl = self.cl
        for i in range(p):
            cl.append("%d %d" % (-x[i], z[table[i]]))
            pre[table[i]].append(x[i])
        for k in range(p):
            cl.append(" ".join(map(str, [-z[k]] + pre[k])))
        self.cache[ck] = z
        return z

    def binop(self, key, table, x, y, commutative=False):
        p = self.p
        x, y = self.mat(x), self.mat(y)
        xi, yi = isinstance(x, int), isinstance(y, int)
        if xi and yi:
            return table[x % p][y % p]
        if xi:
            x %= p
            return self.unop((key, "l", x), table[x], y)
        if yi:
            y %= p
            return self.unop((key, "r", y), [table[i][y] for i in range(p)], x)
        if commutative and y < x:
            x, y = y, x
        ck = ("b", key, x, y)
        z = self.cache.get(ck)
        if z is not None:
            return z
        z = self._derived()
        cl = self.cl
        for i in range(p):
            a = -x[i]
            row = table[i]
            for j in range(p):
                cl.append("%d %d %d" % (a, -y[j], z[row[j]]))
        cl.append(" ".join(map(str, z)))
        self._amo(z)
        if key == "mul":
            cl.append("%d %d" % (-x[0], z[0]))
            cl.append("%d %d" % (-y[0], z[0]))
            cl.append("%d %d %d" % (-z[0], x[0], y[0]))
        self.cache[ck] = z
        return z

    def add(self, x, y):
        tx, cx = self._lin(x)
        ty, cy = self._lin(y)
        t = dict(tx)
        for a, c in ty.items():
            t[a] = t.get(a, 0) + c
        return self._mk(t, cx + cy)

    def scale(self, c, x):
        c %= self.p
        tx, cx = self._lin(x)
        return self._mk({a: c * k for a, k in tx.items()}, c * cx)

    def sub(self, x, y):
        return self.add(x, self.scale(self.p - 1, y))

    def mul(self, x, y):
        if isinstance(x, int):
            return self.scale(x, y)
        if isinstance(y, int):
            return self.scale(y, x)
        return self.binop("mul", self.mulT, x, y, True)

    def neg(self, x):
        return self.scale(self.p - 1, x)

    def finv(self, x):
        return self.unop("inv", self.inv, x)

    def sum(self, xs):
        acc = 0
        for x in xs:
            acc = self.add(acc, x)
        return acc

    def lincomb(self, pairs, const=0):
        acc = const % self.p
        for c, x in pairs:
            acc = self.add(acc, self.scale(c, x))
        return acc

    def ite(self, c, a, b):
        """c is a literal"""
        if c == self.T:
            return a
        if c == self.F:
            return b
        a, b = self.mat(a), self.mat(b)
        if a is b or a == b or (isinstance(a, int) and isinstance(b, int) and a % self.p == b % self.p):
            return a
        a, b = self.lits(a), self.lits(b)
        ck = ("ite", c, a, b)
        z = self.cache.get(ck)
        if z is not None:
            return z
        z = self._derived()
        cl = self.cl
        for i in range(self.p):
            cl.append("%d %d %d" % (-c, -a[i], z[i]))
            cl.append("%d %d %d" % (c, -b[i], z[i]))
            cl.append("%d %d %d" % (-z[i], -c, a[i]))
            cl.append("%d %d %d" % (-z[i], c, b[i]))
        self.cache[ck] = z
        return z

    def lits(self, x):
        x = self.mat(x)
        if isinstance(x, int):
            x %= self.p
            return tuple(self.T if i == x else self.F for i in range(self.p))
        return x

    def select(self, idx, items):
        """items[idx] (last item if idx beyond range)"""
        r = items[-1]
        for i in range(len(items) - 2, -1, -1):
            r = self.ite(self.eqc(idx, i), items[i], r)
        return r

    def b2f(self, lit):
        return self.ite(lit, 1, 0)

    # ---- predicates (return literals) -----------------------------------------
    def pred(self, key, fn, x):
        """unary predicate fn(int)->bool"""
        x = self.mat(x)
        if isinstance(x, int):
            return self.T if fn(x % self.p) else self.F
        ck = ("p", key, x)
        b = self.cache.get(ck)
        if b is not None:
            return b
        S = [bool(fn(i)) for i in range(self.p)]
        if all(S):
            return self.T
        if not any(S):
            return self.F
        if sum(S) == 1:
            b = x[S.index(True)]
        else:
            b = self.var()
            for i in range(self.p):
                self.cl.append("%d %d" % (-x[i], b if S[i] else -b))
        self.cache[ck] = b
        return b

    def eqc(self, x, c):
        c %= self.p
        x = self.mat(x)
        if isinstance(x, int):
            return self.T if x % self.p == c else self.F
        return x[c]

    def rel(self, key, fn, x, y):
        """binary predicate fn(int,int)->bool"""
        p = self.p
        x, y = self.mat(x), self.mat(y)
        if isinstance(x, int) and isinstance(y, int):
            return self.T if fn(x % p, y % p) else self.F
        if isinstance(x, int):
            x %= p
            return self.pred((key, "l", x), lambda j: fn(x, j), y)
        if isinstance(y, int):
            y %= p
            return self.pred((key, "r", y), lambda i: fn(i, y), x)
        ck = ("r", key, x, y)
        b = self.cache.get(ck)
        if b is not None:
            return b
        b = self.var()
        cl = self.cl
        for i in range(p):
            a = -x[i]
            for j in range(p):
                cl.append("%d %d %d" % (a, -y[j], b if fn(i, j) else -b))
        self.cache[ck] = b
        return b

    def eq(self, x, y):
        if isinstance(x, Lin) or isinstance(y, Lin):
            # compare through the (normalised) difference
            return self.eqc(self.canon0(self.sub(x, y)), 0)
        if isinstance(x, int) or isinstance(y, int):
            return self.rel("eq", lambda i, j: i == j, x, y)
        if x is y or x == y:
            return self.T
        if y < x:
            x, y = y, x
        ck = ("eq", x, y)
        b = self.cache.get(ck)
        if b is not None:
            return b
        b = self.var()
        cl = self.cl
        for i in range(self.p):
            cl.append("%d %d %d" % (-x[i], -y[i], b))
            cl.append("%d %d %d" % (-b, -x[i], y[i]))
        self.cache[ck] = b
        return b

    def ne(self, x, y):
        return -self.eq(x, y)

    def lt(self, x, y):
        return self.rel("lt", lambda i, j: i < j, x, y)

    def le(self, x, y):
        return self.rel("le", lambda i, j: i <= j, x, y)

    def isbool(self, x):
        return self.pred("isbool", lambda i: i <= 1, x)

    # ---- boolean structure -------------------------------------------------------
    def AND(self, *ls):
        ls = _flat(ls)
        out = []
        for l in ls:
            if l == self.F:
                return self.F
            if l == self.T:
                continue
            out.append(l)
        out = sorted(set(out))
        for l in out:
            if -l in out:
                return self.F
        if not out:
            return self.T
        if len(out) == 1:
            return out[0]
        ck = ("and", tuple(out))
        b = self.cache.get(ck)
        if b is not None:
            return b
        b = self.var()
        for l in out:
            self.cl.append("%d %d" % (-b, l))
        self.cl.append(" ".join(map(str, [b] + [-l for l in out])))
        self.cache[ck] = b
        return b

    def OR(self, *ls):
        ls = _flat(ls)
        return -self.AND([-l for l in ls])

    def IMP(self, a, b):
        return self.OR(-a, b)

    def IFF(self, a, b):
        return self.AND(self.OR(-a, b), self.OR(a, -b))

    def ITEB(self, c, a, b):
        return self.AND(self.OR(-c, a), self.OR(c, b))

    def count_eq1(self, ls):
        """exactly one of the literals is true"""
        ls = list(ls)
        some = self.OR(ls)
        pairs = []
        for i in range(len(ls)):
            for j in range(i + 1, len(ls)):
                pairs.append(self.OR(-ls[i], -ls[j]))
        return self.AND([some] + pairs)

    # ---- assertions ---------------------------------------------------------------
    def require(self, lit):
        self.cl.append(str(lit))

    def require_eq(self, x, y):
        if isinstance(x, Lin) or isinstance(y, Lin):
            d = self.mat(self.canon0(self.sub(x, y)))
            if isinstance(d, int):
                if d % self.p:
                    self.cl.append(str(self.F))
            else:
                self.cl.append(str(d[0]))
            return
        if isinstance(x, int) and isinstance(y, int):
            if x % self.p != y % self.p:
                self.cl.append(str(self.F))
            return
        if isinstance(x, int):
            self.cl.append(str(y[x % self.p]))
            return
        if isinstance(y, int):
            self.cl.append(str(x[y % self.p]))
            return
        for i in range(self.p):
            self.cl.append("%d %d" % (-x[i], y[i]))

    # ---- solving ---------------------------------------------------------------------
    def snapshot(self):
        return (self.nv, len(self.cl), dict(self.cache))

    def restore(self, snap):
        self.nv, n, self.cache = snap[0], snap[1], dict(snap[2])
        del self.cl[n:]

    def solve(self, timeout_s=120, solver="z3", workdir=None, keep=None):
        """returns (result, model or None, seconds); result in sat/unsat/unknown"""
        workdir = workdir or os.environ.get("VERIF_TMP") or tempfile.gettempdir()
        os.makedirs(workdir, exist_ok=True)
        fd_, path = tempfile.mkstemp(suffix=".cnf", dir=workdir)
        with os.fdopen(fd_, "w") as f:
            f.write("p cnf %d %d\n" % (self.nv, len(self.cl)))
            f.write(" 0\n".join(self.cl))
            f.write(" 0\n")
        t = time.time()
        try:
            pr = subprocess.run([solver, "-dimacs", "-T:%d" % timeout_s, path], capture_output=True, text=True, timeout=timeout_s + 30)
            out = pr.stdout
        except subprocess.TimeoutExpired:
            out = "timeout"
        dt = time.time() - t
        if keep:
            os.replace(path, keep)
        else:
            os.unlink(path)
        res, model = "unknown", None
        if "(error" in out or "error" in out.lower() and "s " not in out:
            return "unknown", None, dt
        for line in out.splitlines():
            if line.startswith("s UNSATISFIABLE"):
                res = "unsat"
            elif line.startswith("s SATISFIABLE"):
                res = "sat"
                model = set()
            elif line.startswith("v ") and model is not None:
                for tok in line[2:].split():
                    v = int(tok)
                    if v > 0:
                        model.add(v)
        return res, model, dt

    def value(self, model, x):
        if isinstance(x, Lin):
            return (x.const + sum(c * self.value(model, a) for a, c in x.terms.items())) % self.p
        if isinstance(x, int):
            return x % self.p
        vals = [i for i in range(self.p) if x[i] in model]
        if len(vals) != 1:
            raise RuntimeError("model is not one-hot on a value: %r" % (vals,))
        return vals[0]

    def litval(self, model, l):
        return (l in model) if l > 0 else (-l not in model)


def _flat(ls):
    out = []
    for l in ls:
        if isinstance(l, (list, tuple)):
            out.extend(_flat(l))
        else:
            out.append(l)
    return out
