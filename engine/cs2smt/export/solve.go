package main

// solve.go: replay mode. Runs the REAL solver of the REAL compiled systems on
// concrete assignments (counterexamples from the SMT layer, or validation
// samples) and reports success / error.

import (
	"bufio"
	"encoding/json"
	"fmt"
	"math/big"
	"os"

	"github.com/consensys/gnark/backend/witness"
	"github.com/consensys/gnark/constraint"
	cstiny "github.com/consensys/gnark/constraint/tinyfield"
	"github.com/consensys/gnark/constraint/solver"
	"github.com/consensys/gnark/frontend"
)

type SolveReq struct {
	Name      string            `json:"name"`
	Builder   string            `json:"builder"`
	Threshold int               `json:"threshold"`
	In        []int64           `json:"in"`
	Out       []int64           `json:"out"`
	Hints     map[string][][]int64 `json:"hints,omitempty"` // hint name -> forced outputs per call, in solving order (adversarial replay)
	Tag       string            `json:"tag,omitempty"`
	Wires     []int64           `json:"wires,omitempty"` // full assignment to evaluate against the real constraint list
}

type SolveResp struct {
	SolveReq
	OK     bool   `json:"ok"`
	Error  string `json:"error,omitempty"`
	RowsOK *bool  `json:"rowsOK,omitempty"` // every R1C row / sparse gate of the real compiled system holds under Wires
	RowBad int    `json:"rowBad,omitempty"`
}

// evalRows evaluates the constraint list of the real compiled object (through
// its public GetR1Cs / GetSparseR1Cs / GetCoefficient accessors) on a full
// wire assignment, independently of the SMT encoding.
func evalRows(cs constraint.ConstraintSystemU32, wires []int64) (bool, int) {
	q := tiny
	w := func(i uint32) *big.Int { return big.NewInt(wires[i]) }
	coef := func(i uint32) *big.Int { return cs.ToBigInt(cs.GetCoefficient(int(i))) }
	le := func(l constraint.LinearExpression) *big.Int {
		acc := new(big.Int)
		for _, t := range l {
			c := coef(t.CID)
			if !t.IsConstant() {
				c.Mul(c, w(t.VID))
			}
			acc.Add(acc, c)
		}
		return acc.Mod(acc, q)
	}
	type r1 interface{ GetR1Cs() []constraint.R1C }
	type sp interface{ GetSparseR1Cs() []constraint.SparseR1C }
	if _, isR1 := cs.(interface{ GetNbConstraints() int }); isR1 {
	}
	switch c := cs.(type) {
	case interface {
		r1
		sp
	}:
		// the concrete type implements both; pick by the system's own type
		if len(wires) > 0 && cs.GetNbPublicVariables() > 0 && isR1CS(cs) {
			for i, r := range c.GetR1Cs() {
				l := le(r.L)
				l.Mul(l, le(r.R)).Mod(l, q)
				if l.Cmp(le(r.O)) != 0 {
					return false, i
				}
			}
			return true, -1
		}
		for i, g := range c.GetSparseR1Cs() {
			if g.Commitment != constraint.NOT {
				continue
			}
			acc := new(big.Int).Mul(coef(g.QL), w(g.XA))
			acc.Add(acc, new(big.Int).Mul(coef(g.QR), w(g.XB)))
			acc.Add(acc, new(big.Int).Mul(coef(g.QO), w(g.XC)))
			m := new(big.Int).Mul(coef(g.QM), w(g.XA))
			acc.Add(acc, m.Mul(m, w(g.XB)))
			acc.Add(acc, coef(g.QC))
			if acc.Mod(acc, q).Sign() != 0 {
				return false, i
			}
		}
		return true, -1
	}
	return false, -2
}

func isR1CS(cs constraint.ConstraintSystemU32) bool {
	if c, ok := cs.(*cstiny.R1CS); ok {
		return c.Type == constraint.SystemR1CS
	}
	return false
}

func solveMode(req, out string) {
	progs := map[string]Prog{}
	for _, p := range allPrograms() {
		progs[p.Name] = p
	}
	rf, err := os.Open(req)
	if err != nil {
		panic(err)
	}
	defer rf.Close()
	of, err := os.Create(out)
	if err != nil {
		panic(err)
	}
	defer of.Close()
	enc := json.NewEncoder(of)
	sc := bufio.NewScanner(rf)
	sc.Buffer(make([]byte, 1<<20), 1<<24)
	type key struct {
		n, b string
		t    int
	}
	for sc.Scan() {
		var r SolveReq
		if err := json.Unmarshal(sc.Bytes(), &r); err != nil {
			panic(err)
		}
		resp := SolveResp{SolveReq: r}
		p, ok := progs[r.Name]
		if !ok {
			resp.Error = "unknown program"
			enc.Encode(&resp)
			continue
		}
		func() {
			defer func() {
				if rec := recover(); rec != nil {
					resp.Error = fmt.Sprintf("panic: %v", rec)
				}
			}()
			cs, err := compileTiny(&p, r.Builder, r.Threshold)
			if err != nil {
				resp.Error = "compile: " + err.Error()
				return
			}
			if len(r.Wires) > 0 {
				ok, bad := evalRows(cs, r.Wires)
				resp.RowsOK, resp.RowBad = &ok, bad
			}
			asg := newCircuit(&p)
			ip, is := 0, 0
			for i, pub := range p.InPublic {
				if pub {
					asg.P[ip] = r.In[i]
					ip++
				} else {
					asg.S[is] = r.In[i]
					is++
				}
			}
			for i := range asg.O {
				asg.O[i] = r.Out[i]
			}
			w, err := frontend.NewWitness(asg, tiny)
			if err != nil {
				resp.Error = "witness: " + err.Error()
				return
			}
			var opts []solver.Option
			for name, vals := range r.Hints {
				vals := vals
				var id solver.HintID
				found := false
				for _, h := range solver.GetRegisteredHints() {
					if solver.GetHintName(h) == name {
						id = solver.GetHintID(h)
						found = true
					}
				}
				if !found {
					resp.Error = "unknown hint " + name
					return
				}
				call := 0
				opts = append(opts, solver.OverrideHint(id, func(_ *big.Int, _ []*big.Int, res []*big.Int) error {
					if call >= len(vals) {
						return fmt.Errorf("replay: more hint calls than recorded")
					}
					for i := range res {
						if i < len(vals[call]) {
							res[i].SetInt64(vals[call][i])
						}
					}
					call++
					return nil
				}))
			}
			opts = append(opts, solver.WithNbTasks(1))
			_, err = cs.Solve(w, opts...)
			if err != nil {
				resp.Error = err.Error()
				return
			}
			resp.OK = true
		}()
		enc.Encode(&resp)
	}
}

var _ witness.Witness

func rcMode(out string) {}
