package main

// programs.go: the space of harness circuits. A program is a list of steps
// over the real frontend API / std gadgets; operands are constants, inputs,
// derived linear expressions, derived product wires or earlier results.

import (
	"fmt"
	"math/big"

	"github.com/consensys/gnark/frontend"
	"github.com/consensys/gnark/std/math/bits"
	"github.com/consensys/gnark/std/math/bitslice"
	"github.com/consensys/gnark/std/math/cmp"
	"github.com/consensys/gnark/std/selector"
)

type Arg struct {
	Kind string `json:"kind"` // const | in | lin | prod | step
	C    int64  `json:"c,omitempty"`
	I    int    `json:"i"` // input index / step index
	J    int    `json:"j"` // second input index (prod) / result index (step)
}

type Step struct {
	Op     string `json:"op"`
	Params []int  `json:"params,omitempty"`
	Args   []Arg  `json:"args"`
}

type OutRef struct {
	Step int `json:"step"`
	Res  int `json:"res"`
}

type Prog struct {
	Name     string   `json:"name"`
	Suite    string   `json:"suite"`
	Tier     string   `json:"tier"` // quick | thorough
	InPublic []bool   `json:"inPublic"`
	Steps    []Step   `json:"steps"`
	Outs     []OutRef `json:"outs"`
	SCSOnly  bool     `json:"scsOnly,omitempty"`
	// compile variants: compress thresholds to try in addition to default (-1)
	Thresholds []int `json:"thresholds,omitempty"`
}

type Circuit struct {
	P    []frontend.Variable `gnark:",public"`
	S    []frontend.Variable
	O    []frontend.Variable `gnark:",public"`
	prog *Prog
}

func newCircuit(p *Prog) *Circuit {
	c := &Circuit{prog: p}
	for _, pub := range p.InPublic {
		if pub {
			c.P = append(c.P, 0)
		} else {
			c.S = append(c.S, 0)
		}
	}
	c.O = make([]frontend.Variable, len(p.Outs))
	for i := range c.O {
		c.O[i] = 0
	}
	return c
}

func (c *Circuit) Define(api frontend.API) error {
	p := c.prog
	ins := make([]frontend.Variable, len(p.InPublic))
	ip, is := 0, 0
	for i, pub := range p.InPublic {
		if pub {
			ins[i] = c.P[ip]
			ip++
		} else {
			ins[i] = c.S[is]
			is++
		}
	}
	results := make([][]frontend.Variable, len(p.Steps))
	for si, st := range p.Steps {
		args := make([]frontend.Variable, len(st.Args))
		for ai, a := range st.Args {
			switch a.Kind {
			case "const":
				args[ai] = a.C
			case "in":
				args[ai] = ins[a.I]
			case "lin": // 2*x+3
				args[ai] = api.Add(api.Mul(ins[a.I], 2), 3)
			case "prod":
				args[ai] = api.Mul(ins[a.I], ins[a.J])
			case "step":
				args[ai] = results[a.I][a.J]
			default:
				return fmt.Errorf("bad arg kind %s", a.Kind)
			}
		}
		r, err := applyOp(api, st.Op, st.Params, args)
		if err != nil {
			return err
		}
		results[si] = r
	}
	for k, o := range p.Outs {
		api.AssertIsEqual(results[o.Step][o.Res], c.O[k])
	}
	return nil
}

func applyOp(api frontend.API, op string, pr []int, a []frontend.Variable) ([]frontend.Variable, error) {
	one := func(v frontend.Variable) []frontend.Variable { return []frontend.Variable{v} }
	switch op {
	case "add":
		return one(api.Add(a[0], a[1], a[2:]...)), nil
	case "sub":
		return one(api.Sub(a[0], a[1], a[2:]...)), nil
	case "mul":
		return one(api.Mul(a[0], a[1], a[2:]...)), nil
	case "neg":
		return one(api.Neg(a[0])), nil
	case "mulacc":
		return one(api.MulAcc(a[0], a[1], a[2])), nil
	case "div":
		return one(api.Div(a[0], a[1])), nil
	case "divunchecked":
		return one(api.DivUnchecked(a[0], a[1])), nil
	case "inverse":
		return one(api.Inverse(a[0])), nil
	case "tobinary":
		return api.ToBinary(a[0], pr[0]), nil
	case "tobinary_default":
		return api.ToBinary(a[0]), nil
	case "frombinary":
		return one(api.FromBinary(a...)), nil
	case "xor":
		return one(api.Xor(a[0], a[1])), nil
	case "or":
		return one(api.Or(a[0], a[1])), nil
	case "and":
		return one(api.And(a[0], a[1])), nil
	case "select":
		return one(api.Select(a[0], a[1], a[2])), nil
	case "lookup2":
		return one(api.Lookup2(a[0], a[1], a[2], a[3], a[4], a[5])), nil
	case "iszero":
		return one(api.IsZero(a[0])), nil
	case "cmp":
		return one(api.Cmp(a[0], a[1])), nil
	case "assert_eq":
		api.AssertIsEqual(a[0], a[1])
		return nil, nil
	case "assert_diff":
		api.AssertIsDifferent(a[0], a[1])
		return nil, nil
	case "assert_bool":
		api.AssertIsBoolean(a[0])
		return nil, nil
	case "assert_crumb":
		api.AssertIsCrumb(a[0])
		return nil, nil
	case "assert_le":
		api.AssertIsLessOrEqual(a[0], a[1])
		return nil, nil
	case "plonk_eval":
		pa, ok := api.(frontend.PlonkAPI)
		if !ok {
			return nil, fmt.Errorf("not a plonk api")
		}
		return one(pa.EvaluatePlonkExpression(a[0], a[1], pr[0], pr[1], pr[2], pr[3])), nil
	case "plonk_constraint":
		pa, ok := api.(frontend.PlonkAPI)
		if !ok {
			return nil, fmt.Errorf("not a plonk api")
		}
		pa.AddPlonkConstraint(a[0], a[1], a[2], pr[0], pr[1], pr[2], pr[3], pr[4])
		return nil, nil
	// ---- std/math/bits
	case "toternary":
		return bits.ToTernary(api, a[0], bits.WithNbDigits(pr[0])), nil
	case "fromternary":
		return one(bits.FromTernary(api, a)), nil
	case "bits_tobinary_unconstrained_in": // digits only, value reconstruction
		return bits.ToBinary(api, a[0], bits.WithNbDigits(pr[0])), nil
	// ---- std/math/cmp
	case "cmp_isless":
		return one(cmp.IsLess(api, a[0], a[1])), nil
	case "cmp_islesseq":
		return one(cmp.IsLessOrEqual(api, a[0], a[1])), nil
	case "cmp_isequal":
		return one(cmp.IsEqual(api, a[0], a[1])), nil
	case "cmp_islessbinary":
		n := pr[0]
		return one(cmp.IsLessBinary(api, a[:n], a[n:])), nil
	case "cmp_islesseqbinary":
		n := pr[0]
		return one(cmp.IsLessOrEqualBinary(api, a[:n], a[n:])), nil
	case "bcmp_assert_less", "bcmp_assert_lesseq", "bcmp_isless", "bcmp_islesseq", "bcmp_min":
		bc := cmp.NewBoundedComparator(api, big.NewInt(int64(pr[0])), pr[1] != 0)
		switch op {
		case "bcmp_assert_less":
			bc.AssertIsLess(a[0], a[1])
			return nil, nil
		case "bcmp_assert_lesseq":
			bc.AssertIsLessEq(a[0], a[1])
			return nil, nil
		case "bcmp_isless":
			return one(bc.IsLess(a[0], a[1])), nil
		case "bcmp_islesseq":
			return one(bc.IsLessEq(a[0], a[1])), nil
		default:
			return one(bc.Min(a[0], a[1])), nil
		}
	// ---- std/selector
	case "mux":
		return one(selector.Mux(api, a[0], a[1:]...)), nil
	case "map":
		n := pr[0]
		return one(selector.Map(api, a[0], a[1:1+n], a[1+n:])), nil
	case "keydecoder":
		return selector.KeyDecoder(api, a[0], a[1:]), nil
	case "decoder":
		return selector.Decoder(api, pr[0], a[0]), nil
	case "binarymux":
		n := pr[0]
		return one(selector.BinaryMux(api, a[:n], a[n:])), nil
	case "slice":
		return selector.Slice(api, a[0], a[1], a[2:]), nil
	case "partition":
		return selector.Partition(api, a[0], pr[0] != 0, a[1:]), nil
	// ---- in-circuit commitments (suite "commit": only the MASKED query of C20 reads these systems)
	case "commit":
		cm, ok := api.(frontend.Committer)
		if !ok {
			return nil, fmt.Errorf("builder does not commit")
		}
		v, err := cm.Commit(a...)
		if err != nil {
			return nil, err
		}
		return one(v), nil
	// ---- std/math/bitslice (on an API that offers no commitment, so that the range checks are the
	// plain bit-decomposition ones; the commit-based checker is C13's subject)
	case "bitslice":
		var opts []bitslice.Option
		if pr[1] > 0 {
			opts = append(opts, bitslice.WithNbDigits(pr[1]))
		}
		lo, hi := bitslice.Partition(noCommitAPI{api}, a[0], uint(pr[0]), opts...)
		return []frontend.Variable{lo, hi}, nil
	}
	return nil, fmt.Errorf("unknown op %s", op)
}

// noCommitAPI hides the builder's Commit method: rangecheck.New then returns the plain checker
type noCommitAPI struct{ frontend.API }

// ---------------------------------------------------------------------------
// program enumeration

type kind struct {
	name string
	tier string // quick | thorough
}

var consts = []struct {
	c    int64
	tier string
}{{0, "quick"}, {1, "quick"}, {2, "thorough"}, {5, "quick"}, {46, "quick"}}

// argument generator: allocates inputs as needed
type pb struct {
	p Prog
}

func (b *pb) in(public bool) int {
	b.p.InPublic = append(b.p.InPublic, public)
	return len(b.p.InPublic) - 1
}

func (b *pb) arg(k string) Arg {
	switch k {
	case "pub":
		return Arg{Kind: "in", I: b.in(true)}
	case "sec":
		return Arg{Kind: "in", I: b.in(false)}
	case "lin":
		return Arg{Kind: "lin", I: b.in(false)}
	case "prod":
		i := b.in(false)
		j := b.in(false)
		return Arg{Kind: "prod", I: i, J: j}
	}
	var c int64
	fmt.Sscanf(k, "c%d", &c)
	return Arg{Kind: "const", C: c}
}

func maxTier(ts ...string) string {
	for _, t := range ts {
		if t == "thorough" {
			return "thorough"
		}
	}
	return "quick"
}

var operandKinds = []kind{
	{"c0", "quick"}, {"c1", "quick"}, {"c2", "thorough"}, {"c5", "quick"}, {"c46", "quick"},
	{"pub", "thorough"}, {"sec", "quick"}, {"lin", "quick"}, {"prod", "thorough"},
}

// nOut: number of results tied to outputs (-1: all results, determined by op)
type opDesc struct {
	op      string
	arity   int
	params  []int
	nres    int
	scsOnly bool
	tier    string
	// variable-only operand positions use only "sec" for extra operands beyond 2 (to bound the product)
}

func enumKinds(n int, f func(ks []kind)) {
	cur := make([]kind, n)
	var rec func(i int)
	rec = func(i int) {
		if i == n {
			f(append([]kind{}, cur...))
			return
		}
		for _, k := range operandKinds {
			cur[i] = k
			rec(i + 1)
		}
	}
	rec(0)
}

func coreSingleOpPrograms() []Prog {
	var out []Prog
	ops := []opDesc{
		{op: "add", arity: 2, nres: 1}, {op: "sub", arity: 2, nres: 1}, {op: "mul", arity: 2, nres: 1},
		{op: "neg", arity: 1, nres: 1}, {op: "inverse", arity: 1, nres: 1},
		{op: "div", arity: 2, nres: 1}, {op: "divunchecked", arity: 2, nres: 1},
		{op: "xor", arity: 2, nres: 1}, {op: "or", arity: 2, nres: 1}, {op: "and", arity: 2, nres: 1},
		{op: "iszero", arity: 1, nres: 1}, {op: "cmp", arity: 2, nres: 1},
		{op: "assert_eq", arity: 2}, {op: "assert_diff", arity: 2}, {op: "assert_bool", arity: 1},
		{op: "assert_crumb", arity: 1}, {op: "assert_le", arity: 2},
		{op: "tobinary", arity: 1, params: []int{1}, nres: 1}, {op: "tobinary", arity: 1, params: []int{5}, nres: 5},
		{op: "tobinary", arity: 1, params: []int{6}, nres: 6}, {op: "tobinary", arity: 1, params: []int{7}, nres: 7}, {op: "tobinary", arity: 1, params: []int{8}, nres: 8, tier: "thorough"},
		{op: "tobinary_default", arity: 1, nres: 6},
		{op: "toternary", arity: 1, params: []int{3}, nres: 3}, {op: "toternary", arity: 1, params: []int{4}, nres: 4},
		{op: "plonk_eval", arity: 2, params: []int{3, 46, 2, 7}, nres: 1, scsOnly: true},
		{op: "plonk_eval", arity: 2, params: []int{0, 1, 0, 0}, nres: 1, scsOnly: true, tier: "thorough"},
		{op: "plonk_eval", arity: 2, params: []int{1, 1, 1, 1}, nres: 1, scsOnly: true, tier: "thorough"},
	}
	for _, od := range ops {
		enumKinds(od.arity, func(ks []kind) {
			b := &pb{}
			name := od.op
			for _, pv := range od.params {
				name += fmt.Sprintf("_%d", pv)
			}
			st := Step{Op: od.op, Params: od.params}
			tiers := []string{od.tier}
			for _, k := range ks {
				st.Args = append(st.Args, b.arg(k.name))
				name += "." + k.name
				tiers = append(tiers, k.tier)
			}
			b.p.Name = name
			b.p.Suite = "core"
			b.p.Tier = maxTier(tiers...)
			b.p.SCSOnly = od.scsOnly
			b.p.Steps = []Step{st}
			for r := 0; r < od.nres; r++ {
				b.p.Outs = append(b.p.Outs, OutRef{0, r})
			}
			out = append(out, b.p)
		})
	}
	// n-ary ops with 3 operands, select, lookup2, mulacc, frombinary, plonk_constraint:
	// operand kind tuples chosen (not the full product)
	tuples3 := [][]string{
		{"sec", "sec", "sec"}, {"sec", "c5", "sec"}, {"c5", "sec", "c46"}, {"c5", "c46", "c2"}, {"lin", "sec", "c1"},
		{"sec", "lin", "lin"}, {"c0", "sec", "sec"}, {"sec", "sec", "c0"}, {"pub", "prod", "sec"}, {"c1", "c1", "sec"},
		{"sec", "c0", "c0"}, {"lin", "lin", "lin"}, {"c46", "c46", "c46"}, {"prod", "prod", "lin"},
	}
	for _, op := range []string{"add", "sub", "mul", "mulacc", "select"} {
		for ti, t := range tuples3 {
			b := &pb{}
			st := Step{Op: op}
			name := op + "3"
			for _, k := range t {
				st.Args = append(st.Args, b.arg(k))
				name += "." + k
			}
			b.p.Name, b.p.Suite, b.p.Steps, b.p.Outs = name, "core", []Step{st}, []OutRef{{0, 0}}
			b.p.Tier = "quick"
			if ti >= 8 {
				b.p.Tier = "thorough"
			}
			out = append(out, b.p)
		}
	}
	tuples6 := [][]string{
		{"sec", "sec", "sec", "sec", "sec", "sec"}, {"sec", "sec", "c5", "c46", "c0", "c1"},
		{"c1", "sec", "sec", "sec", "sec", "sec"}, {"sec", "c0", "sec", "lin", "sec", "c5"},
		{"c1", "c1", "sec", "sec", "sec", "sec"}, {"c0", "c1", "c5", "c2", "c46", "c1"},
		{"lin", "sec", "sec", "sec", "lin", "sec"}, {"sec", "sec", "sec", "sec", "sec", "c0"},
		{"c2", "sec", "sec", "sec", "sec", "sec"}, {"sec", "c5", "sec", "sec", "sec", "sec"},
	}
	for ti, t := range tuples6 {
		b := &pb{}
		st := Step{Op: "lookup2"}
		name := "lookup2"
		for _, k := range t {
			st.Args = append(st.Args, b.arg(k))
			name += "." + k
		}
		b.p.Name, b.p.Suite, b.p.Steps, b.p.Outs = name, "core", []Step{st}, []OutRef{{0, 0}}
		b.p.Tier = "quick"
		if ti >= 5 {
			b.p.Tier = "thorough"
		}
		out = append(out, b.p)
	}
	fb := [][]string{
		{"sec"}, {"sec", "sec", "sec"}, {"sec", "c1", "sec", "c0"}, {"c1", "c0", "c1"}, {"sec", "sec", "sec", "sec", "sec", "sec"},
		{"sec", "sec", "sec", "sec", "sec", "sec", "sec"}, {"lin", "sec"}, {"c5", "sec"}, {"sec", "c2"},
	}
	for ti, t := range fb {
		b := &pb{}
		st := Step{Op: "frombinary"}
		name := "frombinary"
		for _, k := range t {
			st.Args = append(st.Args, b.arg(k))
			name += "." + k
		}
		b.p.Name, b.p.Suite, b.p.Steps, b.p.Outs = name, "core", []Step{st}, []OutRef{{0, 0}}
		b.p.Tier = "quick"
		if ti >= 6 {
			b.p.Tier = "thorough"
		}
		out = append(out, b.p)
		// ternary
		if len(t) <= 4 {
			b2 := &pb{}
			st2 := Step{Op: "fromternary"}
			name2 := "fromternary"
			for _, k := range t {
				st2.Args = append(st2.Args, b2.arg(k))
				name2 += "." + k
			}
			b2.p.Name, b2.p.Suite, b2.p.Steps, b2.p.Outs = name2, "core", []Step{st2}, []OutRef{{0, 0}}
			b2.p.Tier = b.p.Tier
			out = append(out, b2.p)
		}
	}
	pc := []struct {
		ks []string
		q  []int
	}{
		{[]string{"sec", "sec", "sec"}, []int{1, 1, -1, 0, 0}},
		{[]string{"sec", "sec", "sec"}, []int{0, 0, -1, 1, 0}},
		{[]string{"sec", "pub", "sec"}, []int{3, 5, 7, 2, 11}},
		{[]string{"sec", "sec", "sec"}, []int{0, 0, 0, 0, 0}},
		{[]string{"sec", "sec", "sec"}, []int{0, 0, 0, 0, 1}},
		{[]string{"lin", "sec", "prod"}, []int{46, 1, 1, 46, 46}},
	}
	for i, c := range pc {
		b := &pb{}
		st := Step{Op: "plonk_constraint", Params: c.q}
		for _, k := range c.ks {
			st.Args = append(st.Args, b.arg(k))
		}
		b.p.Name, b.p.Suite, b.p.Steps, b.p.SCSOnly = fmt.Sprintf("plonk_constraint.%d", i), "core", []Step{st}, true
		b.p.Tier = "quick"
		out = append(out, b.p)
	}
	return out
}

func sref(i, j int) Arg { return Arg{Kind: "step", I: i, J: j} }

// two-/multi-operation compositions reaching the stateful builder paths
func coreCompositions() []Prog {
	var out []Prog
	add := func(name, tier string, inPub []bool, steps []Step, outs []OutRef, th []int) {
		out = append(out, Prog{Name: "comp." + name, Suite: "comp", Tier: tier, InPublic: inPub, Steps: steps, Outs: outs, Thresholds: th})
	}
	in := func(i int) Arg { return Arg{Kind: "in", I: i} }
	c := func(v int64) Arg { return Arg{Kind: "const", C: v} }
	S := func(op string, args ...Arg) Step { return Step{Op: op, Args: args} }
	ff := []bool{false, false}
	fff := []bool{false, false, false}
	ffff := []bool{false, false, false, false}
	// repeated and rescaled additions / multiplications (dedup maps of the sparse builder)
	// argument aliasing: an API call must not change the meaning of its operands - every variadic
	// op with constants and a variable in every position, then the same variable (and a derived
	// linear expression) read again
	for _, op := range []string{"add", "sub", "mul"} {
		pats := map[string][]Arg{
			"ccx": {c(2), c(3), in(0)}, "cxc": {c(2), in(0), c(3)}, "xcc": {in(0), c(2), c(3)},
			"ccxy": {c(5), c(46), in(0), in(1)}, "cxcy": {c(5), in(0), c(2), in(1)}, "c1cx": {c(1), c(5), in(0)},
		}
		for _, pn := range []string{"ccx", "cxc", "xcc", "ccxy", "cxcy", "c1cx"} {
			tier := "quick"
			if pn == "cxcy" || pn == "xcc" {
				tier = "thorough"
			}
			add("alias_"+op+"_"+pn, tier, ff, []Step{S(op, pats[pn]...), S("add", in(0), c(1)), S("mul", in(0), in(1))}, []OutRef{{0, 0}, {1, 0}, {2, 0}}, nil)
		}
		// the operand is itself a linear expression built before the call and used after it
		add("alias_"+op+"_lin", "quick", ff, []Step{S("add", in(0), in(1)), S(op, c(2), c(3), sref(0, 0)), S("mul", sref(0, 0), in(1))}, []OutRef{{1, 0}, {2, 0}}, nil)
	}
	add("add_twice", "quick", ff, []Step{S("add", in(0), in(1)), S("add", in(0), in(1)), S("mul", sref(0, 0), sref(1, 0))}, []OutRef{{2, 0}}, nil)
	add("add_rescaled", "quick", ff, []Step{S("add", in(0), in(1)), S("mul", in(0), c(2)), S("mul", in(1), c(2)), S("add", sref(1, 0), sref(2, 0)), S("mul", sref(0, 0), sref(3, 0))}, []OutRef{{4, 0}}, nil)
	add("add_swapped", "quick", ff, []Step{S("add", in(0), in(1)), S("add", in(1), in(0)), S("mul", sref(0, 0), sref(1, 0))}, []OutRef{{2, 0}}, nil)
	add("mul_twice", "quick", ff, []Step{S("mul", in(0), in(1)), S("mul", in(1), in(0)), S("add", sref(0, 0), sref(1, 0))}, []OutRef{{2, 0}}, nil)
	add("mul_rescaled", "quick", ff, []Step{S("mul", in(0), in(1)), S("mul", in(0), c(3)), S("mul", sref(1, 0), in(1)), S("sub", sref(2, 0), sref(0, 0))}, []OutRef{{3, 0}}, nil)
	add("mul_neg_rescaled", "quick", ff, []Step{S("mul", in(0), in(1)), S("neg", in(0)), S("mul", sref(1, 0), in(1)), S("add", sref(2, 0), sref(0, 0), c(7))}, []OutRef{{3, 0}}, nil)
	// the sparse builder's addition cache: first sum with / without a constant, second one with equal,
	// proportional or negated coefficients, with / without a constant
	add("addcache_k_then_prop", "quick", ff, []Step{S("add", in(0), in(1), c(5)), S("mul", in(0), c(2)), S("mul", c(2), in(1)), S("add", sref(1, 0), sref(2, 0))}, []OutRef{{0, 0}, {3, 0}}, nil)
	add("addcache_k_then_same", "quick", ff, []Step{S("add", in(0), in(1), c(5)), S("add", in(0), in(1))}, []OutRef{{0, 0}, {1, 0}}, nil)
	add("addcache_k_then_same_k2", "quick", ff, []Step{S("add", in(0), in(1), c(5)), S("add", in(0), in(1), c(7))}, []OutRef{{0, 0}, {1, 0}}, nil)
	add("addcache_then_prop_k", "quick", ff, []Step{S("add", in(0), in(1)), S("mul", in(0), c(3)), S("mul", c(3), in(1)), S("add", sref(1, 0), sref(2, 0), c(4))}, []OutRef{{0, 0}, {3, 0}}, nil)
	add("addcache_subk_then_neg", "quick", ff, []Step{S("sub", in(0), in(1), c(3)), S("sub", in(1), in(0))}, []OutRef{{0, 0}, {1, 0}}, nil)
	add("addcache_k_then_prop_k", "quick", ff, []Step{S("add", in(0), in(1), c(5)), S("mul", in(0), c(2)), S("mul", c(2), in(1)), S("add", sref(1, 0), sref(2, 0), c(10))}, []OutRef{{0, 0}, {3, 0}}, nil)
	add("mulcache_then_scaled", "quick", ff, []Step{S("mul", in(0), in(1)), S("mul", in(0), c(3)), S("mul", sref(1, 0), in(1)), S("mul", in(1), in(0), c(46))}, []OutRef{{0, 0}, {2, 0}, {3, 0}}, nil)
	add("add_const_fold", "quick", ff, []Step{S("add", in(0), c(5)), S("add", sref(0, 0), c(46)), S("add", sref(1, 0), in(1), c(43)), S("mul", sref(2, 0), sref(2, 0))}, []OutRef{{3, 0}}, nil)
	add("sub_self", "quick", ff, []Step{S("sub", in(0), in(0)), S("add", sref(0, 0), in(1)), S("mul", sref(1, 0), in(0))}, []OutRef{{2, 0}}, nil)
	add("sub_self_iszero", "quick", ff, []Step{S("sub", in(0), in(0)), S("iszero", sref(0, 0))}, []OutRef{{1, 0}}, nil)
	add("add_cancel", "quick", ff, []Step{S("add", in(0), in(1)), S("sub", sref(0, 0), in(1)), S("inverse", sref(1, 0))}, []OutRef{{2, 0}}, nil)
	// MulAcc chains re-using the accumulator
	add("mulacc_chain", "quick", fff, []Step{S("mulacc", in(0), in(1), in(2)), S("mulacc", sref(0, 0), in(1), in(1)), S("mulacc", sref(1, 0), in(2), c(5))}, []OutRef{{2, 0}}, nil)
	add("mulacc_alias", "quick", fff, []Step{S("mul", in(0), c(1)), S("mulacc", sref(0, 0), in(1), in(2)), S("add", sref(1, 0), in(0))}, []OutRef{{2, 0}, {1, 0}}, nil)
	// (the accumulator passed to MulAcc is never used again afterwards: the API documents that it may be mutated)
	add("mulacc_input_copy", "quick", fff, []Step{S("mul", in(0), c(1)), S("mulacc", sref(0, 0), in(1), in(2)), S("add", in(0), sref(1, 0))}, []OutRef{{2, 0}, {1, 0}}, []int{1, 2})
	add("mulacc_lin_acc", "quick", fff, []Step{S("add", in(0), in(1), c(3)), S("add", in(0), in(1), c(3)), S("mulacc", sref(0, 0), in(1), in(2)), S("mulacc", sref(2, 0), sref(1, 0), in(2)), S("mul", sref(1, 0), sref(3, 0))}, []OutRef{{4, 0}, {3, 0}}, []int{1, 2})
	add("mulacc_const_bc", "quick", fff, []Step{S("mulacc", in(0), c(5), c(46)), S("mulacc", sref(0, 0), c(2), in(1)), S("mulacc", sref(1, 0), in(2), c(0))}, []OutRef{{2, 0}}, nil)
	// sums of 3-5 terms under compress thresholds
	add("sum5", "quick", ffff, []Step{S("add", in(0), in(1), in(2), in(3), c(9)), S("mul", sref(0, 0), in(0)), S("add", sref(0, 0), sref(1, 0), in(2))}, []OutRef{{2, 0}, {0, 0}}, []int{0, 1, 2, 3})
	add("sum_nested", "quick", ffff, []Step{S("add", in(0), in(1)), S("add", sref(0, 0), in(2)), S("add", sref(1, 0), in(3)), S("sub", sref(2, 0), in(0), in(1)), S("mul", sref(3, 0), sref(2, 0))}, []OutRef{{4, 0}, {3, 0}}, []int{0, 1, 2, 3})
	add("sum_scaled", "quick", fff, []Step{S("mul", in(0), c(3)), S("mul", in(1), c(46)), S("add", sref(0, 0), sref(1, 0), in(2), c(11)), S("div", sref(2, 0), in(2))}, []OutRef{{3, 0}}, []int{0, 2})
	add("sum_cmp", "thorough", fff, []Step{S("add", in(0), in(1), in(2)), S("cmp", sref(0, 0), in(0))}, []OutRef{{1, 0}}, []int{2})
	add("sum_tobinary", "quick", fff, []Step{S("add", in(0), in(1), in(2)), S(("tobinary_default"), sref(0, 0))}, []OutRef{{1, 0}, {1, 5}, {1, 3}}, []int{2})
	// boolean-marked values re-asserted
	add("bool_reassert", "quick", ff, []Step{S("assert_bool", in(0)), S("assert_bool", in(0)), S("xor", in(0), in(1)), S("and", sref(2, 0), in(0)), S("or", sref(3, 0), in(1))}, []OutRef{{4, 0}}, nil)
	add("bool_from_iszero", "quick", ff, []Step{S("iszero", in(0)), S("xor", sref(0, 0), in(1)), S("select", sref(1, 0), in(0), in(1))}, []OutRef{{2, 0}}, nil)
	add("bool_tobinary_and", "quick", ff, []Step{{Op: "tobinary", Params: []int{3}, Args: []Arg{in(0)}}, S("and", sref(0, 0), sref(0, 2)), S("select", sref(0, 1), sref(1, 0), in(1))}, []OutRef{{2, 0}}, nil)
	add("bool_lin_not", "quick", ff, []Step{S("assert_bool", in(0)), S("sub", c(1), in(0)), S("and", sref(1, 0), in(1)), S("xor", sref(2, 0), sref(1, 0))}, []OutRef{{3, 0}}, nil)
	add("bool_scaled_marked", "quick", ff, []Step{S("assert_bool", in(0)), S("mul", in(0), c(2)), S("assert_bool", sref(1, 0))}, nil, nil)
	add("select_same", "quick", ff, []Step{S("select", in(0), in(1), in(1)), S("mul", sref(0, 0), in(0))}, []OutRef{{1, 0}}, nil)
	add("select_consts", "quick", ff, []Step{S("select", in(0), c(1), c(0)), S("select", in(0), c(5), c(46)), S("add", sref(0, 0), sref(1, 0))}, []OutRef{{2, 0}}, nil)
	// same expression reached in different order
	add("reorder_sum", "quick", fff, []Step{S("add", in(0), in(1), in(2)), S("add", in(2), in(0), in(1)), S("assert_eq", sref(0, 0), sref(1, 0)), S("mul", sref(0, 0), sref(1, 0))}, []OutRef{{3, 0}}, []int{1})
	add("assert_eq_two_lin", "quick", fff, []Step{S("add", in(0), in(1)), S("sub", in(2), in(0)), S("assert_eq", sref(0, 0), sref(1, 0))}, nil, nil)
	add("assert_eq_const_lin", "quick", ff, []Step{S("add", in(0), in(1), c(4)), S("assert_eq", sref(0, 0), c(4))}, nil, nil)
	add("div_then_mul", "quick", ff, []Step{S("div", in(0), in(1)), S("mul", sref(0, 0), in(1)), S("assert_eq", sref(1, 0), in(0))}, []OutRef{{0, 0}}, nil)
	add("inverse_twice", "quick", []bool{false}, []Step{S("inverse", in(0)), S("inverse", sref(0, 0))}, []OutRef{{1, 0}}, nil)
	add("cmp_after_binary", "thorough", ff, []Step{{Op: "tobinary", Params: []int{4}, Args: []Arg{in(0)}}, S("frombinary", sref(0, 0), sref(0, 1), sref(0, 2), sref(0, 3)), S("cmp", sref(1, 0), in(1))}, []OutRef{{2, 0}}, nil)
	add("le_var_then_const", "thorough", ff, []Step{S("assert_le", in(0), in(1)), S("assert_le", in(1), c(20))}, nil, nil)
	add("lookup2_chain", "quick", fff, []Step{S("lookup2", in(0), in(1), c(1), c(2), c(3), in(2)), S("lookup2", in(1), in(0), sref(0, 0), in(2), c(0), c(46))}, []OutRef{{1, 0}}, nil)
	add("diff_then_div", "quick", ff, []Step{S("assert_diff", in(0), in(1)), S("sub", in(0), in(1)), S("divunchecked", in(0), sref(1, 0))}, []OutRef{{2, 0}}, nil)
	return out
}

func stdPrograms() []Prog {
	var out []Prog
	mk := func(name, tier string, st Step, kinds []string, nres int) {
		b := &pb{}
		for _, k := range kinds {
			st.Args = append(st.Args, b.arg(k))
		}
		b.p.Name, b.p.Suite, b.p.Tier, b.p.Steps = "std."+name, "std", tier, []Step{st}
		for r := 0; r < nres; r++ {
			b.p.Outs = append(b.p.Outs, OutRef{0, r})
		}
		out = append(out, b.p)
	}
	rep := func(k string, n int) []string {
		r := make([]string, n)
		for i := range r {
			r[i] = k
		}
		return r
	}
	for _, op := range []string{"cmp_isless", "cmp_islesseq", "cmp_isequal"} {
		mk(op+".sec.sec", "quick", Step{Op: op}, []string{"sec", "sec"}, 1)
		mk(op+".sec.c5", "quick", Step{Op: op}, []string{"sec", "c5"}, 1)
		mk(op+".c46.sec", "quick", Step{Op: op}, []string{"c46", "sec"}, 1)
		mk(op+".lin.sec", "thorough", Step{Op: op}, []string{"lin", "sec"}, 1)
		mk(op+".c5.c46", "thorough", Step{Op: op}, []string{"c5", "c46"}, 1)
	}
	for _, n := range []int{1, 2, 3} {
		mk(fmt.Sprintf("cmp_islessbinary_%d", n), "quick", Step{Op: "cmp_islessbinary", Params: []int{n}}, rep("sec", 2*n), 1)
		mk(fmt.Sprintf("cmp_islesseqbinary_%d", n), "quick", Step{Op: "cmp_islesseqbinary", Params: []int{n}}, rep("sec", 2*n), 1)
	}
	mk("cmp_islessbinary_2c", "quick", Step{Op: "cmp_islessbinary", Params: []int{2}}, []string{"sec", "sec", "c1", "c0"}, 1)
	for _, op := range []string{"bcmp_assert_less", "bcmp_assert_lesseq", "bcmp_isless", "bcmp_islesseq", "bcmp_min"} {
		nres := 1
		if op == "bcmp_assert_less" || op == "bcmp_assert_lesseq" {
			nres = 0
		}
		for _, upp := range []int{3, 7, 15} {
			for _, nd := range []int{0, 1} {
				tier := "quick"
				if upp == 3 && nd == 1 {
					tier = "thorough"
				}
				mk(fmt.Sprintf("%s_%d_%d.sec.sec", op, upp, nd), tier, Step{Op: op, Params: []int{upp, nd}}, []string{"sec", "sec"}, nres)
			}
		}
		mk(fmt.Sprintf("%s_7_0.sec.c5", op), "quick", Step{Op: op, Params: []int{7, 0}}, []string{"sec", "c5"}, nres)
		mk(fmt.Sprintf("%s_7_0.c46.sec", op), "thorough", Step{Op: op, Params: []int{7, 0}}, []string{"c46", "sec"}, nres)
	}
	for n := 1; n <= 5; n++ {
		tier := "quick"
		mk(fmt.Sprintf("mux_%d", n), tier, Step{Op: "mux"}, rep("sec", n+1), 1)
		if n >= 2 {
			mk(fmt.Sprintf("decoder_%d", n), tier, Step{Op: "decoder", Params: []int{n}}, []string{"sec"}, n)
			mk(fmt.Sprintf("keydecoder_%d", n), tier, Step{Op: "keydecoder"}, rep("sec", n+1), n)
			mk(fmt.Sprintf("partition_l_%d", n), tier, Step{Op: "partition", Params: []int{0}}, rep("sec", n+1), n)
			mk(fmt.Sprintf("partition_r_%d", n), tier, Step{Op: "partition", Params: []int{1}}, rep("sec", n+1), n)
		}
		if n >= 2 && n <= 4 {
			mk(fmt.Sprintf("map_%d", n), tier, Step{Op: "map", Params: []int{n}}, rep("sec", 2*n+1), 1)
			mk(fmt.Sprintf("slice_%d", n), tier, Step{Op: "slice"}, rep("sec", n+2), n)
		}
	}
	// bitslice.Partition: split x nbDigits (0 = not given; 6 = the field's bit length; 8 = wider than the field)
	for _, nd := range []int{0, 3, 4, 5, 6, 8} {
		for split := 0; split <= 5; split++ {
			if nd > 0 && nd < 6 && split >= nd {
				continue
			}
			tier := "quick"
			if nd == 8 || (nd == 4 && split > 1) {
				tier = "thorough"
			}
			mk(fmt.Sprintf("bitslice_%d_%d", split, nd), tier, Step{Op: "bitslice", Params: []int{split, nd}}, []string{"sec"}, 2)
		}
	}
	mk("bitslice_2_0.c46", "quick", Step{Op: "bitslice", Params: []int{2, 0}}, []string{"c46"}, 2)
	mk("bitslice_2_5.c5", "quick", Step{Op: "bitslice", Params: []int{2, 5}}, []string{"c5"}, 2)
	mk("bitslice_1_3.lin", "quick", Step{Op: "bitslice", Params: []int{1, 3}}, []string{"lin"}, 2)
	// larger multiplexers (added after seed C14-4): secret selector, constant inputs 1..n, for every shape of the
	// recursive split (powers of two, a power of two plus a power of two, plus a non-power of two)
	for _, n := range []int{6, 7, 8, 9, 10, 11, 12, 13} {
		args := []string{"sec"}
		for i := 1; i <= n; i++ {
			args = append(args, fmt.Sprintf("c%d", i))
		}
		t := "quick"
		if n == 8 || n == 10 || n == 12 {
			t = "thorough"
		}
		mk(fmt.Sprintf("mux_%dc", n), t, Step{Op: "mux"}, args, 1)
	}
	mk("mux_3c", "quick", Step{Op: "mux"}, []string{"sec", "c5", "sec", "c46"}, 1)
	mk("mux_csel", "quick", Step{Op: "mux"}, []string{"c2", "sec", "sec", "sec"}, 1)
	mk("map_2ckeys", "quick", Step{Op: "map", Params: []int{2}}, []string{"sec", "c5", "c46", "sec", "sec"}, 1)
	mk("map_3ckeys", "quick", Step{Op: "map", Params: []int{3}}, []string{"sec", "c0", "c1", "c2", "sec", "sec", "sec"}, 1)
	mk("binarymux_1", "quick", Step{Op: "binarymux", Params: []int{1}}, rep("sec", 3), 1)
	mk("binarymux_2", "quick", Step{Op: "binarymux", Params: []int{2}}, rep("sec", 6), 1)
	mk("slice_3c", "quick", Step{Op: "slice"}, []string{"sec", "c2", "sec", "sec", "sec"}, 3)
	return out
}

// circuits with 1..3 in-circuit commitments over secret / public / previously committed variables
func commitPrograms() []Prog {
	var out []Prog
	in := func(i int) Arg { return Arg{Kind: "in", I: i} }
	S := func(op string, args ...Arg) Step { return Step{Op: op, Args: args} }
	add := func(name, tier string, inPub []bool, steps []Step) {
		var outs []OutRef
		for i := range steps {
			outs = append(outs, OutRef{i, 0})
		}
		out = append(out, Prog{Name: "commit." + name, Suite: "commit", Tier: tier, InPublic: inPub, Steps: steps, Outs: outs})
	}
	f2, f3 := []bool{false, false}, []bool{false, false, false}
	add("one", "quick", f2, []Step{S("commit", in(0))})
	add("one_two_vars", "quick", f2, []Step{S("commit", in(0), in(1))})
	add("one_public", "quick", []bool{true, false}, []Step{S("commit", in(0), in(1))})
	add("two_disjoint", "quick", f2, []Step{S("commit", in(0)), S("commit", in(1))})
	add("two_same_var", "quick", f2, []Step{S("commit", in(0), in(1)), S("commit", in(0))})
	add("two_chained", "quick", f2, []Step{S("commit", in(0)), S("commit", sref(0, 0), in(1))})
	add("two_product", "quick", f2, []Step{S("mul", in(0), in(1)), S("commit", sref(0, 0)), S("commit", sref(0, 0), in(1))})
	add("three", "quick", f3, []Step{S("commit", in(0)), S("commit", in(1)), S("commit", in(2), in(0))})
	c := func(v int64) Arg { return Arg{Kind: "const", C: v} }
	add("gate_then_commit", "quick", f2, []Step{S("mul", in(0), in(1)), S("commit", in(0))})
	add("gate_then_commit_const", "quick", f2, []Step{S("mul", in(0), in(1)), S("commit", c(1), in(0))})
	add("gate_then_commit_consts", "quick", f2, []Step{S("mul", in(0), in(1)), S("add", in(0), in(1)), S("commit", c(5), in(1), c(0))})
	add("two_gates_two_commits_const", "quick", f3, []Step{S("mul", in(0), in(1)), S("commit", in(2), c(1)), S("mul", in(1), in(2)), S("commit", c(2), c(3), in(0))})
	add("three_chained", "thorough", f3, []Step{S("commit", in(0)), S("commit", sref(0, 0), in(1)), S("commit", sref(1, 0), sref(0, 0), in(2))})
	add("two_only_public", "thorough", []bool{true, true}, []Step{S("commit", in(0)), S("commit", in(1))})
	return out
}

func allPrograms() []Prog {
	var out []Prog
	out = append(out, commitPrograms()...)
	out = append(out, coreSingleOpPrograms()...)
	out = append(out, coreCompositions()...)
	out = append(out, stdPrograms()...)
	return out
}
