package main

// hints.go: tabulates the REAL registered hint functions over GF(47) so that the
// SMT layer does not rely on hand-written models of them: unary and binary
// hints exhaustively, higher arities on pseudo-random samples.

import (
	"encoding/json"
	"math/big"
	"math/rand"
	"os"
	"strings"

	"github.com/consensys/gnark/constraint/solver"
	_ "github.com/consensys/gnark/std/math/bits"
	_ "github.com/consensys/gnark/std/math/bitslice"
	_ "github.com/consensys/gnark/std/math/cmp"
	_ "github.com/consensys/gnark/std/selector"
)

type HintTable struct {
	Name    string    `json:"name"`
	NIn     int       `json:"nin"`
	NOut    int       `json:"nout"`
	Exhaust bool      `json:"exhaustive"`
	Rows    [][]int64 `json:"rows"` // inputs..., outputs...
}

func callHint(h solver.Hint, in []int64, nout int) ([]int64, bool) {
	ins := make([]*big.Int, len(in))
	for i, v := range in {
		ins[i] = big.NewInt(v)
	}
	outs := make([]*big.Int, nout)
	for i := range outs {
		outs[i] = new(big.Int)
	}
	if err := h(tiny, ins, outs); err != nil {
		return nil, false
	}
	r := make([]int64, nout)
	for i, o := range outs {
		r[i] = new(big.Int).Mod(o, tiny).Int64()
	}
	return r, true
}

func hintsMode(out string, seed int64) {
	want := []struct {
		suffix string
		nin    int
		nout   int
	}{
		{"solver.InvZeroHint", 1, 1},
		{"bits.nBits", 1, 7}, {"bits.nTrits", 1, 5}, {"bits.ithBit", 2, 1},
		{"bitslice.partitionHint", 2, 2},
		{"cmp.isLessOutputHint", 2, 1}, {"cmp.minOutputHint", 2, 1},
		{"selector.muxIndicators", 1, 6},
		{"selector.stepOutput", 3, 5}, {"selector.mapIndicators", 3, 2}, {"selector.mapIndicators", 4, 3}, {"selector.mapIndicators", 5, 4},
	}
	rng := rand.New(rand.NewSource(seed))
	var tabs []HintTable
	for _, w := range want {
		var hf solver.Hint
		var name string
		for _, h := range solver.GetRegisteredHints() {
			n := solver.GetHintName(h)
			if strings.HasSuffix(n, "/"+w.suffix) || strings.HasSuffix(n, w.suffix) {
				hf, name = h, n
			}
		}
		if hf == nil {
			continue
		}
		t := HintTable{Name: name, NIn: w.nin, NOut: w.nout}
		add := func(in []int64) {
			o, ok := callHint(hf, in, w.nout)
			if ok {
				t.Rows = append(t.Rows, append(append([]int64{}, in...), o...))
			}
		}
		switch w.nin {
		case 1:
			t.Exhaust = true
			for a := int64(0); a < 47; a++ {
				add([]int64{a})
			}
		case 2:
			t.Exhaust = true
			for a := int64(0); a < 47; a++ {
				for b := int64(0); b < 47; b++ {
					add([]int64{a, b})
				}
			}
		default:
			for k := 0; k < 3000; k++ {
				in := make([]int64, w.nin)
				for i := range in {
					if rng.Intn(3) == 0 {
						in[i] = int64(rng.Intn(6))
					} else {
						in[i] = int64(rng.Intn(47))
					}
				}
				if k%4 == 0 && w.nin >= 2 { // force a key match
					in[rng.Intn(w.nin-1)] = in[w.nin-1]
				}
				add(in)
			}
		}
		tabs = append(tabs, t)
	}
	f, err := os.Create(out)
	if err != nil {
		panic(err)
	}
	defer f.Close()
	json.NewEncoder(f).Encode(tabs)
}
