package main

import (
	"bufio"
	"encoding/json"
	"flag"
	"fmt"
	"math/big"
	"os"
	"strings"

	"github.com/consensys/gnark/constraint"
	"github.com/consensys/gnark/frontend"
	"github.com/consensys/gnark/frontend/cs/r1cs"
	"github.com/consensys/gnark/frontend/cs/scs"
	"github.com/consensys/gnark/logger"
)

type Variant struct {
	Builder   string   `json:"builder"`
	Threshold int      `json:"threshold"` // -1 default
	Error     string   `json:"error,omitempty"`
	Sys       *JSystem `json:"sys,omitempty"`
}

type Record struct {
	Prog     Prog      `json:"prog"`
	Variants []Variant `json:"variants"`
}

var tiny = big.NewInt(47)

func compileTiny(p *Prog, builder string, threshold int) (cs constraint.ConstraintSystemU32, err error) {
	defer func() {
		if r := recover(); r != nil {
			err = fmt.Errorf("panic: %v", r)
		}
	}()
	var opts []frontend.CompileOption
	if threshold >= 0 {
		opts = append(opts, frontend.WithCompressThreshold(threshold))
	}
	opts = append(opts, frontend.IgnoreUnconstrainedInputs())
	if builder == "r1cs" {
		return frontend.CompileU32(tiny, r1cs.NewBuilder[constraint.U32], newCircuit(p), opts...)
	}
	return frontend.CompileU32(tiny, scs.NewBuilder[constraint.U32], newCircuit(p), opts...)
}

func variantsOf(p *Prog) []Variant {
	var vs []Variant
	ths := append([]int{-1}, p.Thresholds...)
	if os.Getenv("VERIF_ALL_THRESHOLDS") != "" && len(p.Thresholds) == 0 {
		ths = append(ths, 1, 2)
	}
	for _, b := range []string{"r1cs", "scs"} {
		if b == "r1cs" && p.SCSOnly {
			continue
		}
		for _, th := range ths {
			vs = append(vs, Variant{Builder: b, Threshold: th})
		}
	}
	return vs
}

func main() {
	logger.Disable()
	mode := flag.String("mode", "export", "export | solve | list")
	suites := flag.String("suites", "core,comp,std", "comma separated suites")
	tier := flag.String("tier", "quick", "quick | thorough")
	out := flag.String("out", "", "output jsonl")
	req := flag.String("req", "", "solve mode: request jsonl file")
	seed := flag.Int64("seed", 1, "seed for sampled tables")
	flag.Parse()

	switch *mode {
	case "export":
		exportMode(*suites, *tier, *out)
	case "solve":
		solveMode(*req, *out)
	case "hints":
		hintsMode(*out, *seed)
	case "rc":
		rcMode(*out)
	default:
		fmt.Fprintln(os.Stderr, "unknown mode")
		os.Exit(2)
	}
}

func selected(suites, tier string) []Prog {
	want := map[string]bool{}
	for _, s := range strings.Split(suites, ",") {
		want[s] = true
	}
	var ps []Prog
	for _, p := range allPrograms() {
		if !want[p.Suite] {
			continue
		}
		if tier == "quick" && p.Tier != "quick" {
			continue
		}
		ps = append(ps, p)
	}
	return ps
}

func exportMode(suites, tier, out string) {
	f, err := os.Create(out)
	if err != nil {
		panic(err)
	}
	defer f.Close()
	w := bufio.NewWriterSize(f, 1<<20)
	defer w.Flush()
	enc := json.NewEncoder(w)
	n := 0
	for _, p := range selected(suites, tier) {
		p := p
		rec := Record{Prog: p}
		for _, v := range variantsOf(&p) {
			cs, err := compileTiny(&p, v.Builder, v.Threshold)
			if err != nil {
				v.Error = err.Error()
			} else {
				js, err := dumpAny(cs)
				if err != nil {
					v.Error = "dump: " + err.Error()
				} else {
					v.Sys = js
				}
			}
			rec.Variants = append(rec.Variants, v)
		}
		if err := enc.Encode(&rec); err != nil {
			panic(err)
		}
		n++
	}
	fmt.Printf("exported %d programs\n", n)
}
