package main

// dump.go: reads the *real* compiled constraint system objects (R1CS / sparse
// R1CS over tinyfield or BN254) and writes the emitted constraints, hint
// instructions, lookup instructions, commitments and levels as JSON.

import (
	"fmt"
	"math/big"
	"sort"
	"strings"

	"github.com/consensys/gnark/constraint"
	csbn254 "github.com/consensys/gnark/constraint/bn254"
	"github.com/consensys/gnark/constraint/solver"
	cstiny "github.com/consensys/gnark/constraint/tinyfield"
)

type JTerm [2]int64 // coeff id, wire id (-1 = constant)

type JInst struct {
	Kind string `json:"kind"` // r1c | sparse | hint | lookup | other
	BP   string `json:"bp"`
	// r1c
	L []JTerm `json:"L,omitempty"`
	R []JTerm `json:"R,omitempty"`
	O []JTerm `json:"O,omitempty"`
	// sparse
	XA, XB, XC         uint32 `json:",omitempty"`
	QL, QR, QO, QM, QC uint32 `json:",omitempty"`
	Commitment         int    `json:",omitempty"`
	// hint
	Hint   string    `json:"hint,omitempty"`
	Inputs [][]JTerm `json:"inputs,omitempty"`
	Out    []uint32  `json:"out,omitempty"`
	// lookup / other
	Calldata   []uint32 `json:"calldata,omitempty"`
	WireOffset uint32   `json:"wireOffset"`
	COffset    uint32   `json:"cOffset"`
	BPID       int      `json:"bpid"`
	Entries    []uint32 `json:"entries,omitempty"`
}

type JSystem struct {
	Type        string      `json:"type"`
	Field       string      `json:"field"`
	NbPublic    int         `json:"nbPublic"`
	NbSecret    int         `json:"nbSecret"`
	NbInternal  int         `json:"nbInternal"`
	NbConstr    int         `json:"nbConstraints"`
	Public      []string    `json:"public"`
	Secret      []string    `json:"secret"`
	Coeffs      []string    `json:"coeffs"`
	Insts       []JInst     `json:"insts"`
	Levels      [][]uint32  `json:"levels"`
	Commitments interface{} `json:"commitments"`
	HintDeps    []string    `json:"hintDeps"`
}

func jterms(le constraint.LinearExpression) []JTerm {
	r := make([]JTerm, 0, len(le))
	for _, t := range le {
		v := int64(t.VID)
		if t.IsConstant() {
			v = -1
		}
		r = append(r, JTerm{int64(t.CID), v})
	}
	return r
}

func bpName(b constraint.Blueprint) string {
	s := fmt.Sprintf("%T", b)
	if i := strings.Index(s, "["); i >= 0 {
		s = s[:i]
	}
	s = strings.TrimPrefix(s, "*constraint.")
	return s
}

func dumpSystem(sys *constraint.System, coeffs []string, lookupEntries func(b constraint.Blueprint) []uint32) *JSystem {
	js := &JSystem{
		Field: sys.Field().String(), NbPublic: len(sys.Public), NbSecret: len(sys.Secret),
		NbInternal: sys.NbInternalVariables, NbConstr: sys.NbConstraints,
		Public: sys.Public, Secret: sys.Secret, Coeffs: coeffs, Levels: sys.Levels,
	}
	if sys.Type == constraint.SystemR1CS {
		js.Type = "r1cs"
	} else {
		js.Type = "scs"
	}
	js.Commitments = sys.CommitmentInfo
	for _, name := range sys.MHintsDependencies {
		js.HintDeps = append(js.HintDeps, name)
	}
	sort.Strings(js.HintDeps)
	for _, pi := range sys.Instructions {
		bp := sys.Blueprints[pi.BlueprintID]
		inst := pi.Unpack(sys)
		ji := JInst{BP: bpName(bp), WireOffset: inst.WireOffset, COffset: inst.ConstraintOffset, BPID: int(pi.BlueprintID)}
		switch b := bp.(type) {
		case constraint.BlueprintR1C:
			var r constraint.R1C
			b.DecompressR1C(&r, inst)
			ji.Kind = "r1c"
			ji.L, ji.R, ji.O = jterms(r.L), jterms(r.R), jterms(r.O)
		case constraint.BlueprintSparseR1C:
			var c constraint.SparseR1C
			b.DecompressSparseR1C(&c, inst)
			ji.Kind = "sparse"
			ji.XA, ji.XB, ji.XC = c.XA, c.XB, c.XC
			ji.QL, ji.QR, ji.QO, ji.QM, ji.QC = c.QL, c.QR, c.QO, c.QM, c.QC
			ji.Commitment = int(c.Commitment)
		case constraint.BlueprintHint:
			var h constraint.HintMapping
			b.DecompressHint(&h, inst)
			ji.Kind = "hint"
			ji.Hint = sys.MHintsDependencies[h.HintID]
			if ji.Hint == "" {
				ji.Hint = solver.GetHintName(solver.GetRegisteredHint(h.HintID))
			}
			for _, in := range h.Inputs {
				ji.Inputs = append(ji.Inputs, jterms(in))
			}
			ji.Out = []uint32{h.OutputRange.Start, h.OutputRange.End}
		default:
			if strings.Contains(ji.BP, "BlueprintLookupHint") {
				ji.Kind = "lookup"
				ji.Entries = lookupEntries(bp)
			} else {
				ji.Kind = "other"
			}
			ji.Calldata = append([]uint32{}, inst.Calldata...)
		}
		js.Insts = append(js.Insts, ji)
	}
	return js
}

var _ = big.NewInt

func dumpAny(cs interface{}) (*JSystem, error) {
	switch c := cs.(type) {
	case *cstiny.R1CS: // == *cstiny.SparseR1CS
		coeffs := make([]string, c.GetNbCoefficients())
		for i := range coeffs {
			coeffs[i] = c.ToBigInt(c.GetCoefficient(i)).String()
		}
		return dumpSystem(&c.System, coeffs, func(b constraint.Blueprint) []uint32 {
			if l, ok := b.(*constraint.BlueprintLookupHint[constraint.U32]); ok {
				return l.EntriesCalldata
			}
			return nil
		}), nil
	case *csbn254.R1CS:
		coeffs := make([]string, c.GetNbCoefficients())
		for i := range coeffs {
			coeffs[i] = c.ToBigInt(c.GetCoefficient(i)).String()
		}
		return dumpSystem(&c.System, coeffs, func(b constraint.Blueprint) []uint32 {
			if l, ok := b.(*constraint.BlueprintLookupHint[constraint.U64]); ok {
				return l.EntriesCalldata
			}
			return nil
		}), nil
	}
	return nil, fmt.Errorf("unsupported system type %T", cs)
}
