package main

// fieldmodel.go: stubs for field elements (gnark-crypto style Element types of every
// field package, and constraint.U32/U64). The element is its array of machine words;
// word 0 holds the value in the chosen model, the other words are 0, so the real code
// that copies / compares / reinterprets words runs unmodified.

import (
	"fmt"
	"go/types"
	"math/big"

	"golang.org/x/tools/go/ssa"
)

// FieldModel abstracts how field element values are represented in word 0.
type FieldModel interface {
	Name() string
	Const(v int64, wordW int) *Term
	Add(in *Interp, a, b *Term) *Term
	Sub(in *Interp, a, b *Term) *Term
	Mul(in *Interp, a, b *Term) *Term
	Inv(in *Interp, a *Term) *Term
	Fresh(in *Interp, name string, wordW int) *Term
	Read(in *Interp, t *Term) *Term
	Eq(in *Interp, a, b *Term) *Term
}

// ---- algebra model: values are reals (identities over Q hold in every field)
type realModel struct{}

func (realModel) Name() string                     { return "algebra (reals)" }
func (realModel) Const(v int64, wordW int) *Term   { return RealInt(v) }
func (realModel) Add(in *Interp, a, b *Term) *Term { return in.s.RBin("+", a, b) }
func (realModel) Sub(in *Interp, a, b *Term) *Term { return in.s.RBin("-", a, b) }
func (realModel) Mul(in *Interp, a, b *Term) *Term { return in.s.RBin("*", a, b) }
func (realModel) Read(in *Interp, t *Term) *Term   { return in.coerceReal(t) }
func (realModel) Eq(in *Interp, a, b *Term) *Term  { return in.s.Eq(a, b) }
func (realModel) Fresh(in *Interp, name string, wordW int) *Term {
	return in.fresh(name, RealSort)
}
func (realModel) Inv(in *Interp, x *Term) *Term {
	if x.IsConst {
		if x.Q.Sign() == 0 {
			return RealInt(0)
		}
		return RealConst(new(big.Rat).Inv(x.Q))
	}
	// a fresh symbol per distinct argument term (syntactic functional consistency), no UF:
	// keeps the queries in pure non-linear real arithmetic
	if y, ok := in.invMemo[x.S]; ok {
		return y
	}
	y := in.s.Fresh("finv", RealSort)
	ax := in.s.Ite(in.s.Eq(x, RealInt(0)), in.s.Eq(y, RealInt(0)), in.s.Eq(in.s.RBin("*", x, y), RealInt(1)))
	in.pc = append(in.pc, ax)
	in.invMemo[x.S] = y
	return y
}

// ---- GF(p) model: word 0 holds the canonical value < p as a machine word; arithmetic on narrow lanes
type gfpModel struct{ p uint64 }

const laneW = 16

func (m gfpModel) Name() string { return fmt.Sprintf("GF(%d) on %d-bit lanes", m.p, laneW) }
func (m gfpModel) Const(v int64, wordW int) *Term {
	r := v % int64(m.p)
	if r < 0 {
		r += int64(m.p)
	}
	return BVConst(uint64(r), wordW)
}
func (m gfpModel) lane(in *Interp, a *Term) *Term { return in.s.Resize(a, laneW, false) }
func (m gfpModel) red(in *Interp, t *Term, wordW int) *Term {
	return in.s.Resize(in.s.BVBin("bvurem", t, BVConst(m.p, laneW)), wordW, false)
}
func (m gfpModel) Add(in *Interp, a, b *Term) *Term {
	return m.red(in, in.s.BVBin("bvadd", m.lane(in, a), m.lane(in, b)), a.Sort.W)
}
func (m gfpModel) Sub(in *Interp, a, b *Term) *Term {
	return m.red(in, in.s.BVBin("bvsub", in.s.BVBin("bvadd", m.lane(in, a), BVConst(m.p, laneW)), m.lane(in, b)), a.Sort.W)
}
func (m gfpModel) Mul(in *Interp, a, b *Term) *Term {
	return m.red(in, in.s.BVBin("bvmul", m.lane(in, a), m.lane(in, b)), a.Sort.W)
}
func (m gfpModel) Read(in *Interp, t *Term) *Term {
	if t.Sort.K != SBV {
		panic(abort("internal", "GF(p) model expects machine words"))
	}
	return t
}
func (m gfpModel) Eq(in *Interp, a, b *Term) *Term { return in.s.Eq(a, b) }
func (m gfpModel) Fresh(in *Interp, name string, wordW int) *Term {
	t := in.fresh(name, BVSort(wordW))
	in.pc = append(in.pc, in.s.BVCmp("bvult", t, BVConst(m.p, wordW)))
	return t
}
func (m gfpModel) Inv(in *Interp, x *Term) *Term {
	if x.IsConst {
		if x.C == 0 {
			return BVConst(0, x.Sort.W)
		}
		r := new(big.Int).ModInverse(new(big.Int).SetUint64(x.C), new(big.Int).SetUint64(m.p))
		return BVConst(r.Uint64(), x.Sort.W)
	}
	y := in.s.UF("finv", x.Sort, x)
	zero := BVConst(0, x.Sort.W)
	ax := in.s.And(in.s.BVCmp("bvult", y, BVConst(m.p, x.Sort.W)),
		in.s.Ite(in.s.Eq(x, zero), in.s.Eq(y, zero), in.s.Eq(m.Mul(in, x, y), BVConst(1, x.Sort.W))))
	in.pc = append(in.pc, ax)
	return y
}

func (in *Interp) frArr(v Val) *ArrayV {
	switch x := v.(type) {
	case Ptr:
		if x.Obj == nil {
			in.progPanic("nil pointer dereference")
		}
		return in.loadRef(x).(*ArrayV)
	case *ArrayV:
		return x
	}
	panic(abort("internal", fmt.Sprintf("field element access on %T", v)))
}

func wordW(arr *ArrayV) int {
	for _, e := range arr.E {
		if t, ok := e.(*Term); ok && t.Sort.K == SBV {
			return t.Sort.W
		}
	}
	return 64
}

func (in *Interp) frRead(v Val) *Term {
	arr := in.frArr(v)
	for _, e := range arr.E[1:] {
		if t, ok := e.(*Term); !ok || !t.IsConst || t.C != 0 {
			panic(abort("unmodelled", "field element with raw upper words"))
		}
	}
	return in.cfg.Field.Read(in, arr.E[0].(*Term))
}

func (in *Interp) frWrite(p Ptr, t *Term) {
	arr := in.load(p).(*ArrayV)
	w := wordW(arr)
	arr.E[0] = t
	for i := 1; i < len(arr.E); i++ {
		arr.E[i] = BVConst(0, w)
	}
	in.store(p, arr)
}

// frValue builds an element value of type t holding v in word 0
func (in *Interp) frValue(t types.Type, v *Term) Val {
	arr := in.zero(t).(*ArrayV)
	arr.E[0] = v
	return arr
}

func (in *Interp) frConst(p Val, v int64) *Term {
	return in.cfg.Field.Const(v, wordW(in.frArr(p)))
}

func fieldStub(in *Interp, fn *ssa.Function, recvNamed string) StubFn {
	name := fn.Name()
	F := in.cfg.Field
	bin := func(op func(in *Interp, a, b *Term) *Term) StubFn {
		return func(in *Interp, fn *ssa.Function, a []Val) Val {
			in.frWrite(a[0].(Ptr), op(in, in.frRead(a[1]), in.frRead(a[2])))
			return a[0]
		}
	}
	switch name {
	case "Add":
		return bin(F.Add)
	case "Sub":
		return bin(F.Sub)
	case "Mul":
		return bin(F.Mul)
	case "Neg":
		return func(in *Interp, fn *ssa.Function, a []Val) Val {
			in.frWrite(a[0].(Ptr), F.Sub(in, in.frConst(a[0], 0), in.frRead(a[1])))
			return a[0]
		}
	case "Double":
		return func(in *Interp, fn *ssa.Function, a []Val) Val {
			x := in.frRead(a[1])
			in.frWrite(a[0].(Ptr), F.Add(in, x, x))
			return a[0]
		}
	case "Square":
		return func(in *Interp, fn *ssa.Function, a []Val) Val {
			x := in.frRead(a[1])
			in.frWrite(a[0].(Ptr), F.Mul(in, x, x))
			return a[0]
		}
	case "Inverse":
		return func(in *Interp, fn *ssa.Function, a []Val) Val {
			in.frWrite(a[0].(Ptr), F.Inv(in, in.frRead(a[1])))
			return a[0]
		}
	case "Div":
		return func(in *Interp, fn *ssa.Function, a []Val) Val {
			in.frWrite(a[0].(Ptr), F.Mul(in, in.frRead(a[1]), F.Inv(in, in.frRead(a[2]))))
			return a[0]
		}
	case "Set":
		return func(in *Interp, fn *ssa.Function, a []Val) Val {
			in.frWrite(a[0].(Ptr), in.frRead(a[1]))
			return a[0]
		}
	case "SetZero":
		return func(in *Interp, fn *ssa.Function, a []Val) Val {
			in.frWrite(a[0].(Ptr), in.frConst(a[0], 0))
			return a[0]
		}
	case "SetOne":
		return func(in *Interp, fn *ssa.Function, a []Val) Val {
			in.frWrite(a[0].(Ptr), in.frConst(a[0], 1))
			return a[0]
		}
	case "SetUint64", "SetInt64":
		return func(in *Interp, fn *ssa.Function, a []Val) Val {
			t := a[1].(*Term)
			if !t.IsConst {
				panic(abort("unmodelled", "SetUint64/SetInt64 of a symbolic integer"))
			}
			if name == "SetInt64" {
				in.frWrite(a[0].(Ptr), in.frConst(a[0], sext(t.C, t.Sort.W)))
			} else {
				if t.C > 1<<40 {
					panic(abort("unmodelled", "SetUint64 of a large constant"))
				}
				in.frWrite(a[0].(Ptr), in.frConst(a[0], int64(t.C)))
			}
			return a[0]
		}
	case "Equal":
		return func(in *Interp, fn *ssa.Function, a []Val) Val {
			return F.Eq(in, in.frRead(a[0]), in.frRead(a[1]))
		}
	case "IsZero":
		return func(in *Interp, fn *ssa.Function, a []Val) Val {
			return F.Eq(in, in.frRead(a[0]), in.frConst(a[0], 0))
		}
	case "IsOne":
		return func(in *Interp, fn *ssa.Function, a []Val) Val {
			return F.Eq(in, in.frRead(a[0]), in.frConst(a[0], 1))
		}
	case "String", "Text":
		return func(in *Interp, fn *ssa.Function, a []Val) Val { return "<elem>" }
	case "IsUint64":
		return func(in *Interp, fn *ssa.Function, a []Val) Val {
			if _, ok := F.(gfpModel); ok {
				return BoolConst(true)
			}
			return in.s.UF("fieldIsU64", BoolSort, in.frRead(a[0]))
		}
	case "Uint64":
		return func(in *Interp, fn *ssa.Function, a []Val) Val {
			x := in.frRead(a[0])
			if _, ok := F.(gfpModel); ok {
				return in.s.Resize(x, 64, false)
			}
			return in.s.UF("fieldToU64", BVSort(64), x)
		}
	case "SetRandom":
		return func(in *Interp, fn *ssa.Function, a []Val) Val {
			in.frWrite(a[0].(Ptr), F.Fresh(in, "random", wordW(in.frArr(a[0]))))
			res := fn.Signature.Results()
			if res.Len() == 2 {
				return TupleV{a[0], IfaceV{}}
			}
			return a[0]
		}
	}
	return nil
}
