package main

// interp.go: symbolic interpreter for Go SSA.

import (
	"os"
	"math/big"
	"fmt"
	"go/constant"
	"go/token"
	"go/types"
	"sort"
	"strings"

	"golang.org/x/tools/go/ssa"
)

type abortT struct{ kind, msg string }

func abort(kind, msg string) *abortT { return &abortT{kind, msg} }

// ProgPanic is a panic of the interpreted program.
type ProgPanic struct {
	Val Val
	Msg string
}

type panicState struct {
	pp        *ProgPanic
	recovered bool
}

type deferred struct {
	fn   FuncV
	args []Val
}

type Frame struct {
	fn        *ssa.Function
	locals    map[ssa.Value]Val
	defers    []deferred
	backedges int
	results   Val
	cur       ssa.Instruction
}

type nondet struct {
	Name string
	T    *Term
}

type Interp struct {
	prog    *ssa.Program
	s       *Solver
	ex      *Explorer
	pc      []*Term
	globals map[*ssa.Global]*Obj
	nObj    int
	nMap    int
	cfg     *Config

	nondets  []nondet
	panics   []*panicState
	depth    int
	reach    map[string]bool
	once     map[string]bool
	syncMaps map[string]*MapObj // sync.Map values, keyed by the object they live in: association lists with key equality as for built-in maps
	encoded  map[string]int
	stubs    map[string]int
	asserts  int
	failures []Failure
	steps    int
	initDone map[*ssa.Package]bool
	inInit   bool
	atoms    []Atom // recorded predicate atoms (differential mode)
	invMemo   map[string]*Term
	bigVals   map[*Obj]*Term
	bigConc   map[*Obj]*big.Int // big.Int objects with a concrete (arbitrary precision) value
	bigOpaque map[*Obj]bool
	bigField  map[*Obj]*Term // big.Int objects that carry a field value (Element.BigInt / SetBigInt)
	curFrame  *Frame // most recently executing frame (diagnostics only)
	sched     *Sched // nil: sequential model (a goroutine runs to completion where it is spawned)
	transcripts map[*Obj]string // Fiat-Shamir transcripts: everything bound so far (the challenge is a function of it)
	memoTerms map[string][]*Term // deterministic opaque functions (canonical encodings, SetBytes): same argument terms, same result
	codecStore [][]Val
	noSummary bool  // set while running a harness whose name says it validates a summary
	curFn    []string
}

type Atom struct {
	Name string
	Vals []Val
	OK   bool
}

// sameRef: are two values the same reference / the same symbolic value (syntactically)
func sameRef(a, b Val) bool {
	if ia, ok := a.(IfaceV); ok {
		a = ia.V
	}
	if ib, ok := b.(IfaceV); ok {
		b = ib.V
	}
	switch x := a.(type) {
	case Ptr:
		y, ok := b.(Ptr)
		return ok && x.Obj == y.Obj && samePtr(x, y)
	case SliceV:
		y, ok := b.(SliceV)
		return ok && x == y
	}
	return sameKey(a, b)
}

type Failure struct {
	Msg    string            `json:"msg"`
	Model  map[string]string `json:"model"`
	Path   []int             `json:"path"`
	Kind    string            `json:"kind"`
	Status  string            `json:"status"`
	Chooses []int             `json:"chooses"`
}

func (in *Interp) progPanic(msg string) {
	if os.Getenv("GOSYM_PANIC_LOC") != "" && in.curFrame != nil && in.curFrame.fn != nil {
		msg += " @ " + in.curFrame.fn.String()
	}
	panic(&ProgPanic{Val: msg, Msg: msg})
}

// ---------------------------------------------------------------------------
// path condition and branching

func (in *Interp) assume(c *Term) {
	if c.IsConst {
		if c.C == 0 {
			panic(abort("assume", "assumption false"))
		}
		return
	}
	in.pc = append(in.pc, c)
}

// branch returns the direction taken for a symbolic condition (forking via the explorer).
func (in *Interp) branch(c *Term) bool {
	if c.IsConst {
		return c.C == 1
	}
	return in.choose([]*Term{c, in.s.Not(c)}, "if") == 0
}

// choose picks one of several mutually exclusive guards (all feasible ones are explored).
func (in *Interp) choose(guards []*Term, what string) int {
	k := in.ex.Decide(in, guards, what)
	in.assume(guards[k])
	return k
}

// concretize resolves a bit-vector term to a concrete value in [0,n) or -1 (out of range), forking.
func (in *Interp) concretize(t *Term, n int, what string) int {
	if t.IsConst {
		v := sext(t.C, t.Sort.W)
		if v < 0 || v >= int64(n) {
			return -1
		}
		return int(v)
	}
	if n > in.cfg.MaxIndexSplit {
		panic(abort("unmodelled", fmt.Sprintf("symbolic %s over %d alternatives", what, n)))
	}
	guards := make([]*Term, 0, n+1)
	for i := 0; i < n; i++ {
		guards = append(guards, in.s.Eq(t, BVConst(uint64(i), t.Sort.W)))
	}
	guards = append(guards, in.s.BVCmp("bvuge", t, BVConst(uint64(n), t.Sort.W)))
	k := in.choose(guards, what)
	if k == n {
		return -1
	}
	return k
}

// ---------------------------------------------------------------------------

func (in *Interp) global(g *ssa.Global) *Obj {
	if o, ok := in.globals[g]; ok {
		return o
	}
	in.ensureInit(g.Pkg)
	if o, ok := in.globals[g]; ok {
		return o
	}
	o := in.newObj(in.zero(g.Type().(*types.Pointer).Elem()), "global "+g.Name())
	in.globals[g] = o
	return o
}

// ensureInit runs the package initializer of configured packages (errors.New-style globals)
func (in *Interp) ensureInit(p *ssa.Package) {
	if p == nil || in.initDone[p] {
		return
	}
	in.initDone[p] = true
	if !in.cfg.initPkg(p.Pkg.Path()) {
		return
	}
	p.Build()
	initFn := p.Func("init")
	if initFn == nil {
		return
	}
	saved := in.inInit
	in.inInit = true
	defer func() { in.inInit = saved }()
	// allocate all globals first
	for _, m := range p.Members {
		if g, ok := m.(*ssa.Global); ok {
			if _, ok := in.globals[g]; !ok {
				in.globals[g] = in.newObj(in.zero(g.Type().(*types.Pointer).Elem()), "global "+g.Name())
			}
		}
	}
	in.call(FuncV{Fn: initFn}, nil, nil)
}

func (in *Interp) constVal(c *ssa.Const) Val {
	t := c.Type()
	if c.Value == nil {
		return in.zero(t)
	}
	switch u := t.Underlying().(type) {
	case *types.Basic:
		if w, signed, ok := intWidth(u); ok {
			if signed {
				v, _ := constant.Int64Val(constant.ToInt(c.Value))
				return BVConst(uint64(v), w)
			}
			v, _ := constant.Uint64Val(constant.ToInt(c.Value))
			return BVConst(v, w)
		}
		switch u.Kind() {
		case types.Bool, types.UntypedBool:
			return BoolConst(constant.BoolVal(c.Value))
		case types.String, types.UntypedString:
			return constant.StringVal(c.Value)
		case types.Float32, types.Float64, types.UntypedFloat:
			f, _ := constant.Float64Val(c.Value)
			return f
		}
	}
	panic(abort("unmodelled", "constant of type "+t.String()))
}

func (in *Interp) get(fr *Frame, v ssa.Value) Val {
	switch x := v.(type) {
	case *ssa.Const:
		return in.constVal(x)
	case *ssa.Function:
		return FuncV{Fn: x}
	case *ssa.Global:
		return Ptr{Obj: in.global(x)}
	case *ssa.Builtin:
		return FuncV{Builtin: x}
	}
	r, ok := fr.locals[v]
	if !ok {
		panic(abort("internal", fmt.Sprintf("no value for %s (%T) in %s", v.Name(), v, fr.fn)))
	}
	return r
}

// ---------------------------------------------------------------------------
// calls

func (in *Interp) call(f FuncV, args []Val, site ssa.Instruction) Val {
	if f.Builtin != nil {
		panic(abort("internal", "builtin called through call()"))
	}
	fn := f.Fn
	if fn == nil {
		in.progPanic("call of nil function")
	}
	if f.HasRecv {
		args = append([]Val{f.Recv}, args...)
	}
	name := fn.String()
	if fn.Name() == "init" && fn.Pkg != nil && fn.Signature.Recv() == nil && len(args) == 0 {
		// package initialisers run only for the packages the harness asked for
		if !in.cfg.initPkg(fn.Pkg.Pkg.Path()) {
			return nil
		}
		if in.initDone[fn.Pkg] && !in.inInit {
			return nil
		}
		in.initDone[fn.Pkg] = true
	}
	if strings.HasPrefix(fn.Name(), "verif") {
		if r, ok := in.intrinsic(fn, args); ok {
			return r
		}
	}
	if !in.noSummary {
		for suffix, sum := range in.cfg.Summaries {
			if strings.HasSuffix(name, suffix) && fn != sum {
				in.stubs["summary:"+name+" => "+sum.Name()]++
				return in.call(FuncV{Fn: sum}, args, site)
			}
		}
	}
	if st := findStub(in, fn); st != nil {
		in.stubs[name]++
		return st(in, fn, args)
	}
	if len(fn.Blocks) == 0 {
		if fn.Pkg != nil {
			fn.Pkg.Build()
		} else if o := fn.Origin(); o != nil && o.Pkg != nil {
			o.Pkg.Build()
		}
	}
	if len(fn.Blocks) == 0 {
		if in.inInit {
			// initialisers of other packages may call things we do not model: result is the zero value
			return in.zero(fn.Signature.Results())
		}
		panic(abort("unmodelled", "external function without stub: "+name))
	}
	if !in.cfg.allowed(fn) {
		panic(abort("unmodelled", "function outside the encode set and without stub: "+name))
	}
	in.encoded[name]++
	in.depth++
	if in.depth > in.cfg.MaxDepth {
		panic(abort("unwind", "call depth exceeded in "+name))
	}
	defer func() { in.depth-- }()
	fr := &Frame{fn: fn, locals: make(map[ssa.Value]Val, 32)}
	for i, p := range fn.Params {
		if i < len(args) {
			fr.locals[p] = args[i]
		}
	}
	for i, fv := range fn.FreeVars {
		fr.locals[fv] = f.Env[i]
	}
	return in.runFrame(fr)
}

func (in *Interp) runFrame(fr *Frame) (ret Val) {
	defer func() {
		r := recover()
		if r == nil {
			return
		}
		if ab, ok := r.(*abortT); ok && (ab.kind == "internal" || ab.kind == "unmodelled") && !strings.Contains(ab.msg, " @ ") {
			ab.msg += " @ " + fr.fn.String()
			if fr.cur != nil {
				ab.msg += ": " + fr.cur.String()
			}
		}
		pp, ok := r.(*ProgPanic)
		if !ok {
			panic(r)
		}
		// run deferred calls with the panic pending
		st := &panicState{pp: pp}
		in.panics = append(in.panics, st)
		for len(fr.defers) > 0 {
			d := fr.defers[len(fr.defers)-1]
			fr.defers = fr.defers[:len(fr.defers)-1]
			in.invoke(d.fn, d.args)
		}
		in.panics = in.panics[:len(in.panics)-1]
		if !st.recovered {
			panic(pp)
		}
		// recovered: resume at the Recover block (returns named results) or return zero values
		if fr.fn.Recover != nil {
			ret = in.execBlocks(fr, fr.fn.Recover)
			return
		}
		ret = in.zeroResults(fr.fn)
	}()
	return in.execBlocks(fr, fr.fn.Blocks[0])
}

func (in *Interp) zeroResults(fn *ssa.Function) Val {
	res := fn.Signature.Results()
	switch res.Len() {
	case 0:
		return nil
	case 1:
		return in.zero(res.At(0).Type())
	}
	return in.zero(res)
}

func (in *Interp) invoke(f FuncV, args []Val) Val {
	if f.Builtin != nil {
		return in.builtin(nil, f.Builtin.Name(), args, nil)
	}
	return in.call(f, args, nil)
}

func (in *Interp) execBlocks(fr *Frame, block *ssa.BasicBlock) Val {
	var prev *ssa.BasicBlock
	for {
		// phis first, simultaneously
		var phiVals []Val
		var phis []*ssa.Phi
		for _, instr := range block.Instrs {
			phi, ok := instr.(*ssa.Phi)
			if !ok {
				break
			}
			idx := -1
			for i, p := range block.Preds {
				if p == prev {
					idx = i
					break
				}
			}
			if idx < 0 {
				panic(abort("internal", "phi without predecessor"))
			}
			phis = append(phis, phi)
			phiVals = append(phiVals, in.get(fr, phi.Edges[idx]))
		}
		for i, phi := range phis {
			fr.locals[phi] = phiVals[i]
		}
		var next *ssa.BasicBlock
		for _, instr := range block.Instrs[len(phis):] {
			in.steps++
			fr.cur = instr
			in.curFrame = fr
			if in.steps > in.cfg.MaxSteps {
				panic(abort("unwind", "step budget exceeded"))
			}
			switch i := instr.(type) {
			case *ssa.If:
				c := in.get(fr, i.Cond).(*Term)
				if in.branch(c) {
					next = block.Succs[0]
				} else {
					next = block.Succs[1]
				}
			case *ssa.Jump:
				next = block.Succs[0]
			case *ssa.Return:
				switch len(i.Results) {
				case 0:
					return nil
				case 1:
					return in.get(fr, i.Results[0])
				}
				tv := make(TupleV, len(i.Results))
				for k, r := range i.Results {
					tv[k] = in.get(fr, r)
				}
				return tv
			case *ssa.Panic:
				v := in.get(fr, i.X)
				msg := "panic"
				if iv, ok := v.(IfaceV); ok {
					if s, ok := iv.V.(string); ok {
						msg = s
					}
				}
				panic(&ProgPanic{Val: v, Msg: msg})
			default:
				in.exec(fr, instr)
			}
		}
		if next == nil {
			panic(abort("internal", "block without terminator"))
		}
		if next.Index <= block.Index {
			fr.backedges++
			if fr.backedges > in.cfg.Unwind {
				panic(abort("unwind", fmt.Sprintf("unwinding limit %d reached in %s", in.cfg.Unwind, fr.fn)))
			}
		}
		prev, block = block, next
	}
}

// ---------------------------------------------------------------------------

func (in *Interp) exec(fr *Frame, instr ssa.Instruction) {
	switch i := instr.(type) {
	case *ssa.DebugRef:
	case *ssa.Alloc:
		fr.locals[i] = Ptr{Obj: in.newObj(in.zero(i.Type().(*types.Pointer).Elem()), i.Comment)}
	case *ssa.UnOp:
		fr.locals[i] = in.unop(fr, i)
	case *ssa.BinOp:
		fr.locals[i] = in.binop(i.Op, in.get(fr, i.X), in.get(fr, i.Y), i.X.Type(), i.Y.Type())
	case *ssa.Store:
		in.store(in.get(fr, i.Addr).(Ptr), in.get(fr, i.Val))
	case *ssa.FieldAddr:
		p := in.get(fr, i.X).(Ptr)
		if p.Obj == nil {
			in.progPanic("nil pointer dereference")
		}
		fr.locals[i] = p.sub(i.Field)
	case *ssa.Field:
		fr.locals[i] = deepCopy(in.get(fr, i.X).(*StructV).F[i.Field])
	case *ssa.IndexAddr:
		fr.locals[i] = in.indexAddr(fr, i)
	case *ssa.Index:
		x := in.get(fr, i.X)
		idx := in.get(fr, i.Index).(*Term)
		switch xv := x.(type) {
		case *ArrayV:
			k := in.concretize(idx, len(xv.E), "array index")
			if k < 0 {
				in.progPanic("index out of range")
			}
			fr.locals[i] = deepCopy(xv.E[k])
		case string:
			k := in.concretize(idx, len(xv), "string index")
			if k < 0 {
				in.progPanic("index out of range")
			}
			fr.locals[i] = BVConst(uint64(xv[k]), 8)
		default:
			panic(abort("unmodelled", fmt.Sprintf("Index on %T", x)))
		}
	case *ssa.Call:
		fr.locals[i] = in.doCall(fr, &i.Call, i)
	case *ssa.Defer:
		f, args := in.callee(fr, &i.Call)
		fr.defers = append(fr.defers, deferred{f, args})
	case *ssa.Go:
		// sequential model: the goroutine runs to completion here (one legal schedule)
		f, args := in.callee(fr, &i.Call)
		if in.sched != nil {
			in.spawn(f, args)
		} else {
			in.invoke(f, args)
		}
	case *ssa.RunDefers:
		for len(fr.defers) > 0 {
			d := fr.defers[len(fr.defers)-1]
			fr.defers = fr.defers[:len(fr.defers)-1]
			in.invoke(d.fn, d.args)
		}
	case *ssa.Extract:
		fr.locals[i] = in.get(fr, i.Tuple).(TupleV)[i.Index]
	case *ssa.MakeClosure:
		env := make([]Val, len(i.Bindings))
		for k, b := range i.Bindings {
			env[k] = in.get(fr, b)
		}
		fr.locals[i] = FuncV{Fn: i.Fn.(*ssa.Function), Env: env}
	case *ssa.MakeInterface:
		fr.locals[i] = IfaceV{T: i.X.Type(), V: in.get(fr, i.X)}
	case *ssa.ChangeInterface:
		fr.locals[i] = in.get(fr, i.X)
	case *ssa.ChangeType:
		fr.locals[i] = in.get(fr, i.X)
	case *ssa.Convert:
		fr.locals[i] = in.convert(in.get(fr, i.X), i.X.Type(), i.Type())
	case *ssa.MultiConvert:
		fr.locals[i] = in.convert(in.get(fr, i.X), i.X.Type(), i.Type())
	case *ssa.TypeAssert:
		fr.locals[i] = in.typeAssert(fr, i)
	case *ssa.MakeSlice:
		n := in.needInt(in.get(fr, i.Len).(*Term), "make len")
		var c int
		if ct := in.get(fr, i.Cap).(*Term); !ct.IsConst && in.get(fr, i.Len).(*Term).IsConst {
			// symbolic capacity with a concrete length: the capacity only decides whether later appends
			// reallocate, so both regimes are explored (no spare room / plenty of spare room)
			if in.branch(in.s.BVCmp("bvslt", ct, in.get(fr, i.Len).(*Term))) {
				in.progPanic("makeslice: cap out of range")
			}
			c = n + 64*in.ex.DecideFree(in, 2, "make-cap")
		} else {
			c = in.needInt(ct, "make cap")
		}
		if n < 0 || c < n {
			in.progPanic("makeslice: len out of range")
		}
		fr.locals[i] = in.makeSlice(i.Type().Underlying().(*types.Slice).Elem(), n, c)
	case *ssa.Slice:
		fr.locals[i] = in.slice(fr, i)
	case *ssa.SliceToArrayPointer:
		s := in.get(fr, i.X).(SliceV)
		n := int(i.Type().(*types.Pointer).Elem().Underlying().(*types.Array).Len())
		if s.Len < n {
			in.progPanic("cannot convert slice to array pointer: length too short")
		}
		if s.Obj == nil {
			fr.locals[i] = Ptr{}
			break
		}
		if arr := s.Obj.V.(*ArrayV); s.Off == 0 && len(arr.E) == n {
			fr.locals[i] = Ptr{Obj: s.Obj}
		} else {
			// a view object whose cells alias the cells [Off, Off+n) of the backing array
			fr.locals[i] = Ptr{Obj: &Obj{V: &ArrayV{E: arr.E[s.Off : s.Off+n : s.Off+n]}, ID: -1, Name: "array-view"}}
		}
	case *ssa.MakeMap:
		mt := i.Type().Underlying().(*types.Map)
		in.nMap++
		fr.locals[i] = MapV{M: &MapObj{KT: mt.Key(), VT: mt.Elem(), ID: in.nMap}}
	case *ssa.MapUpdate:
		m := in.get(fr, i.Map).(MapV)
		if m.M == nil {
			in.progPanic("assignment to entry in nil map")
		}
		in.mapSet(m.M, in.get(fr, i.Key), in.get(fr, i.Value))
	case *ssa.Lookup:
		fr.locals[i] = in.lookup(fr, i)
	case *ssa.Range:
		x := in.get(fr, i.X)
		switch xv := x.(type) {
		case MapV:
			it := &rangeIter{}
			if xv.M != nil {
				it.m = xv.M
				it.snap = append([]mapEntry{}, xv.M.Entries...)
				for k := range xv.M.Entries {
					it.remain = append(it.remain, k)
				}
			}
			fr.locals[i] = it
		case string:
			fr.locals[i] = &rangeIter{isStr: true, str: xv}
		default:
			panic(abort("unmodelled", fmt.Sprintf("Range over %T", x)))
		}
	case *ssa.Next:
		fr.locals[i] = in.next(fr, i)
	case *ssa.MakeChan:
		co := &ChanObj{}
		if in.sched != nil {
			co.Cap = in.needInt(in.get(fr, i.Size).(*Term), "channel capacity")
		}
		fr.locals[i] = ChanV{C: co}
	case *ssa.Send:
		ch := in.get(fr, i.Chan).(ChanV)
		if in.sched != nil {
			in.chanSend(ch, in.get(fr, i.X))
			break
		}
		if ch.C == nil {
			panic(abort("unmodelled", "send on nil channel"))
		}
		ch.C.Queue = append(ch.C.Queue, in.get(fr, i.X))
	case *ssa.Select:
		panic(abort("unmodelled", "select"))
	default:
		panic(abort("unmodelled", fmt.Sprintf("instruction %T in %s", instr, fr.fn)))
	}
}

func (in *Interp) needInt(t *Term, what string) int {
	if !t.IsConst {
		// small symbolic sizes are case-split
		k := in.concretize(t, in.cfg.MaxIndexSplit, what)
		if k < 0 {
			panic(abort("assume", "symbolic "+what+" beyond the split bound (outside the claim)"))
		}
		return k
	}
	return int(sext(t.C, t.Sort.W))
}

func (in *Interp) callee(fr *Frame, c *ssa.CallCommon) (FuncV, []Val) {
	args := make([]Val, 0, len(c.Args)+1)
	if c.IsInvoke() {
		recv := in.get(fr, c.Value).(IfaceV)
		if recv.T == nil {
			in.progPanic("nil pointer dereference (method call on nil interface)")
		}
		ms := in.prog.MethodSets.MethodSet(recv.T)
		sel := ms.Lookup(c.Method.Pkg(), c.Method.Name())
		if sel == nil {
			panic(abort("internal", fmt.Sprintf("method %s not found on %s", c.Method.Name(), recv.T)))
		}
		fn := in.prog.MethodValue(sel)
		if fn == nil {
			panic(abort("unmodelled", fmt.Sprintf("abstract method %s on %s", c.Method.Name(), recv.T)))
		}
		args = append(args, recv.V)
		for _, a := range c.Args {
			args = append(args, in.get(fr, a))
		}
		return FuncV{Fn: fn}, args
	}
	for _, a := range c.Args {
		args = append(args, in.get(fr, a))
	}
	fv := in.get(fr, c.Value)
	f, ok := fv.(FuncV)
	if !ok {
		panic(abort("internal", fmt.Sprintf("call of %T", fv)))
	}
	return f, args
}

func (in *Interp) doCall(fr *Frame, c *ssa.CallCommon, site *ssa.Call) Val {
	if b, ok := c.Value.(*ssa.Builtin); ok {
		args := make([]Val, len(c.Args))
		for k, a := range c.Args {
			args[k] = in.get(fr, a)
		}
		return in.builtin(fr, b.Name(), args, c)
	}
	f, args := in.callee(fr, c)
	if f.Builtin != nil {
		return in.builtin(fr, f.Builtin.Name(), args, c)
	}
	return in.call(f, args, site)
}

// ---------------------------------------------------------------------------

func (in *Interp) unop(fr *Frame, i *ssa.UnOp) Val {
	x := in.get(fr, i.X)
	switch i.Op {
	case token.MUL:
		return in.load(x.(Ptr))
	case token.NOT:
		return in.s.Not(x.(*Term))
	case token.SUB:
		if f, ok := x.(float64); ok {
			return -f
		}
		return in.s.BVNeg(x.(*Term))
	case token.XOR:
		return in.s.BVNot(x.(*Term))
	case token.ARROW:
		ch := x.(ChanV)
		if in.sched != nil {
			v, ok := in.chanRecv(ch)
			if !ok {
				v = in.zero(i.X.Type().Underlying().(*types.Chan).Elem())
			}
			if i.CommaOk {
				return TupleV{v, BoolConst(ok)}
			}
			return v
		}
		if ch.C == nil || len(ch.C.Queue) == 0 {
			if ch.C != nil && ch.C.Closed {
				z := in.zero(i.X.Type().Underlying().(*types.Chan).Elem())
				if i.CommaOk {
					return TupleV{z, BoolConst(false)}
				}
				return z
			}
			panic(abort("unmodelled", "receive on empty channel (would block in the sequential model)"))
		}
		v := ch.C.Queue[0]
		ch.C.Queue = ch.C.Queue[1:]
		if i.CommaOk {
			return TupleV{v, BoolConst(true)}
		}
		return v
	}
	panic(abort("unmodelled", "unop "+i.Op.String()))
}

func isSigned(t types.Type) bool {
	if b, ok := t.Underlying().(*types.Basic); ok {
		_, s, _ := intWidth(b)
		return s
	}
	return false
}

func (in *Interp) binop(op token.Token, x, y Val, xt, yt types.Type) Val {
	switch a := x.(type) {
	case *Term:
		b, ok := y.(*Term)
		if !ok {
			panic(abort("internal", fmt.Sprintf("binop %s on Term and %T", op, y)))
		}
		if a.Sort.K == SBool {
			switch op {
			case token.EQL:
				return in.s.Eq(a, b)
			case token.NEQ:
				return in.s.Not(in.s.Eq(a, b))
			case token.AND, token.LAND:
				return in.s.And(a, b)
			case token.OR, token.LOR:
				return in.s.Or(a, b)
			}
		}
		if a.Sort.K == SReal || b.Sort.K == SReal {
			a, b = in.coerceReal(a), in.coerceReal(b)
			switch op {
			case token.EQL:
				return in.s.Eq(a, b)
			case token.NEQ:
				return in.s.Not(in.s.Eq(a, b))
			}
			panic(abort("unmodelled", "machine-word operation "+op.String()+" on a field element held in the algebra model"))
		}
		if a.Sort.K != SBV {
			switch op {
			case token.EQL:
				return in.s.Eq(a, b)
			case token.NEQ:
				return in.s.Not(in.s.Eq(a, b))
			}
			panic(abort("unmodelled", "binop on opaque value"))
		}
		signed := isSigned(xt)
		switch op {
		case token.ADD:
			return in.s.BVBin("bvadd", a, b)
		case token.SUB:
			return in.s.BVBin("bvsub", a, b)
		case token.MUL:
			return in.s.BVBin("bvmul", a, b)
		case token.QUO, token.REM:
			if in.branch(in.s.Eq(b, BVConst(0, b.Sort.W))) {
				in.progPanic("integer divide by zero")
			}
			opn := map[bool]map[token.Token]string{true: {token.QUO: "bvsdiv", token.REM: "bvsrem"}, false: {token.QUO: "bvudiv", token.REM: "bvurem"}}[signed][op]
			return in.s.BVBin(opn, a, b)
		case token.AND:
			return in.s.BVBin("bvand", a, b)
		case token.OR:
			return in.s.BVBin("bvor", a, b)
		case token.XOR:
			return in.s.BVBin("bvxor", a, b)
		case token.AND_NOT:
			return in.s.BVBin("bvand", a, in.s.BVNot(b))
		case token.SHL, token.SHR:
			w := a.Sort.W
			if isSigned(yt) && !b.IsConst {
				if in.branch(in.s.BVCmp("bvslt", b, BVConst(0, b.Sort.W))) {
					in.progPanic("negative shift amount")
				}
			}
			var cnt *Term
			var big_ *Term
			if b.Sort.W > w {
				big_ = in.s.BVCmp("bvuge", b, BVConst(uint64(w), b.Sort.W))
				cnt = in.s.Resize(b, w, false)
			} else {
				cnt = in.s.Resize(b, w, false)
				big_ = BoolConst(false)
			}
			var r *Term
			if op == token.SHL {
				r = in.s.BVBin("bvshl", a, cnt)
				return in.s.Ite(big_, BVConst(0, w), r)
			}
			if signed {
				r = in.s.BVBin("bvashr", a, cnt)
				return in.s.Ite(big_, in.s.BVBin("bvashr", a, BVConst(uint64(w-1), w)), r)
			}
			r = in.s.BVBin("bvlshr", a, cnt)
			return in.s.Ite(big_, BVConst(0, w), r)
		case token.EQL:
			return in.s.Eq(a, b)
		case token.NEQ:
			return in.s.Not(in.s.Eq(a, b))
		case token.LSS:
			return in.s.BVCmp(map[bool]string{true: "bvslt", false: "bvult"}[signed], a, b)
		case token.LEQ:
			return in.s.BVCmp(map[bool]string{true: "bvsle", false: "bvule"}[signed], a, b)
		case token.GTR:
			return in.s.BVCmp(map[bool]string{true: "bvsgt", false: "bvugt"}[signed], a, b)
		case token.GEQ:
			return in.s.BVCmp(map[bool]string{true: "bvsge", false: "bvuge"}[signed], a, b)
		}
	case string:
		b := y.(string)
		switch op {
		case token.ADD:
			return a + b
		case token.EQL:
			return BoolConst(a == b)
		case token.NEQ:
			return BoolConst(a != b)
		case token.LSS:
			return BoolConst(a < b)
		case token.LEQ:
			return BoolConst(a <= b)
		case token.GTR:
			return BoolConst(a > b)
		case token.GEQ:
			return BoolConst(a >= b)
		}
	case float64:
		b := y.(float64)
		switch op {
		case token.ADD:
			return a + b
		case token.SUB:
			return a - b
		case token.MUL:
			return a * b
		case token.QUO:
			return a / b
		case token.EQL:
			return BoolConst(a == b)
		case token.NEQ:
			return BoolConst(a != b)
		case token.LSS:
			return BoolConst(a < b)
		case token.LEQ:
			return BoolConst(a <= b)
		case token.GTR:
			return BoolConst(a > b)
		case token.GEQ:
			return BoolConst(a >= b)
		}
	}
	switch op {
	case token.EQL:
		return in.valEq(x, y)
	case token.NEQ:
		return in.s.Not(in.valEq(x, y))
	}
	panic(abort("unmodelled", fmt.Sprintf("binop %s on %T, %T", op, x, y)))
}

// coerceReal turns a constant zero word into the real 0 (zero value of a field element)
func (in *Interp) coerceReal(t *Term) *Term {
	if t.Sort.K == SReal {
		return t
	}
	if t.Sort.K == SBV && t.IsConst && t.C == 0 {
		return RealInt(0)
	}
	panic(abort("unmodelled", "raw (Montgomery) words of a field element mixed with the algebra model: "+t.S))
}

func (in *Interp) valEq(x, y Val) *Term {
	switch a := x.(type) {
	case *Term:
		b, ok := y.(*Term)
		if !ok {
			break
		}
		if a.Sort.K == SReal || b.Sort.K == SReal {
			return in.s.Eq(in.coerceReal(a), in.coerceReal(b))
		}
		return in.s.Eq(a, b)
	case string:
		if b, ok := y.(string); ok {
			return BoolConst(a == b)
		}
	case Ptr:
		if b, ok := y.(Ptr); ok {
			return BoolConst(samePtr(a, b))
		}
	case *StructV:
		b := y.(*StructV)
		conj := []*Term{}
		for i := range a.F {
			conj = append(conj, in.valEq(a.F[i], b.F[i]))
		}
		return in.s.And(conj...)
	case *ArrayV:
		b := y.(*ArrayV)
		conj := []*Term{}
		for i := range a.E {
			conj = append(conj, in.valEq(a.E[i], b.E[i]))
		}
		return in.s.And(conj...)
	case IfaceV:
		b, ok := y.(IfaceV)
		if !ok {
			break
		}
		if a.T == nil || b.T == nil {
			return BoolConst(a.T == nil && b.T == nil)
		}
		if !types.Identical(a.T, b.T) {
			return BoolConst(false)
		}
		return in.valEq(a.V, b.V)
	case SliceV:
		if b, ok := y.(SliceV); ok { // only comparison with nil is legal
			return BoolConst(a.Obj == nil && b.Obj == nil)
		}
	case MapV:
		if b, ok := y.(MapV); ok {
			return BoolConst(a.M == b.M)
		}
	case FuncV:
		if b, ok := y.(FuncV); ok {
			return BoolConst(a.Fn == nil && b.Fn == nil && a.Builtin == nil && b.Builtin == nil)
		}
	case ChanV:
		if b, ok := y.(ChanV); ok {
			return BoolConst(a.C == b.C)
		}
	case float64:
		if b, ok := y.(float64); ok {
			return BoolConst(a == b)
		}
	case nil:
		return BoolConst(y == nil)
	}
	panic(abort("unmodelled", fmt.Sprintf("equality of %T and %T", x, y)))
}

func (in *Interp) convert(x Val, from, to types.Type) Val {
	fu, tu := from.Underlying(), to.Underlying()
	if fb, ok := fu.(*types.Basic); ok {
		if tb, ok := tu.(*types.Basic); ok {
			fw, fsigned, fint := intWidth(fb)
			tw, _, tint := intWidth(tb)
			_ = fw
			if fint && tint {
				return in.s.Resize(x.(*Term), tw, fsigned)
			}
			if fint && (tb.Kind() == types.Float64 || tb.Kind() == types.Float32) {
				t := x.(*Term)
				if !t.IsConst {
					panic(abort("unmodelled", "symbolic int to float conversion"))
				}
				if fsigned {
					return float64(sext(t.C, t.Sort.W))
				}
				return float64(t.C)
			}
			if tint && (fb.Kind() == types.Float64 || fb.Kind() == types.Float32 || fb.Kind() == types.UntypedFloat) {
				return BVConst(uint64(int64(x.(float64))), tw)
			}
			if fb.Info()&types.IsFloat != 0 && tb.Info()&types.IsFloat != 0 {
				return x
			}
			if fb.Info()&types.IsString != 0 && tb.Info()&types.IsString != 0 {
				return x
			}
			if fint && tb.Info()&types.IsString != 0 {
				t := x.(*Term)
				if t.IsConst {
					return string(rune(t.C))
				}
			}
			if fb.Kind() == types.UnsafePointer || tb.Kind() == types.UnsafePointer {
				return x
			}
		}
		if ts, ok := tu.(*types.Slice); ok && fb.Info()&types.IsString != 0 {
			s := x.(string)
			if eb, ok := ts.Elem().Underlying().(*types.Basic); ok && eb.Kind() == types.Uint8 {
				sl := in.makeSlice(ts.Elem(), len(s), len(s))
				for k := 0; k < len(s); k++ {
					sl.Obj.V.(*ArrayV).E[k] = BVConst(uint64(s[k]), 8)
				}
				return sl
			}
		}
		if _, ok := tu.(*types.Pointer); ok && fb.Kind() == types.UnsafePointer {
			return x
		}
	}
	if fs, ok := fu.(*types.Slice); ok {
		if tb, ok := tu.(*types.Basic); ok && tb.Info()&types.IsString != 0 {
			if eb, ok := fs.Elem().Underlying().(*types.Basic); ok && eb.Kind() == types.Uint8 {
				s := x.(SliceV)
				bs := make([]byte, s.Len)
				for k := 0; k < s.Len; k++ {
					t := in.sliceGet(s, k).(*Term)
					if !t.IsConst {
						panic(abort("unmodelled", "string from symbolic bytes"))
					}
					bs[k] = byte(t.C)
				}
				return string(bs)
			}
		}
	}
	if _, ok := fu.(*types.Pointer); ok {
		return x // pointer <-> unsafe.Pointer / pointer conversions
	}
	if types.Identical(fu, tu) {
		return x
	}
	panic(abort("unmodelled", fmt.Sprintf("conversion %s -> %s", from, to)))
}

func (in *Interp) implements(dyn types.Type, iface *types.Interface) bool {
	return types.Implements(dyn, iface)
}

func (in *Interp) typeAssert(fr *Frame, i *ssa.TypeAssert) Val {
	x := in.get(fr, i.X).(IfaceV)
	ok := false
	var res Val
	if it, isIface := i.AssertedType.Underlying().(*types.Interface); isIface {
		if x.T != nil && in.implements(x.T, it) {
			ok, res = true, x
		} else {
			res = IfaceV{}
		}
	} else {
		if x.T != nil && types.Identical(x.T, i.AssertedType) {
			ok, res = true, x.V
		} else {
			res = in.zero(i.AssertedType)
		}
	}
	if i.CommaOk {
		return TupleV{res, BoolConst(ok)}
	}
	if !ok {
		in.progPanic(fmt.Sprintf("interface conversion: %v is not %s", x.T, i.AssertedType))
	}
	return res
}

func (in *Interp) indexAddr(fr *Frame, i *ssa.IndexAddr) Val {
	x := in.get(fr, i.X)
	idx := in.get(fr, i.Index).(*Term)
	switch xv := x.(type) {
	case Ptr: // pointer to array
		if xv.Obj == nil {
			in.progPanic("nil pointer dereference")
		}
		n := int(i.X.Type().Underlying().(*types.Pointer).Elem().Underlying().(*types.Array).Len())
		if !idx.IsConst && xv.SymIdx == nil && n > 0 && n <= in.cfg.MaxSymIndex {
			if !in.branch(in.s.BVCmp("bvult", idx, BVConst(uint64(n), idx.Sort.W))) {
				in.progPanic("index out of range")
			}
			return xv.subSym(idx, n, 0)
		}
		k := in.concretize(idx, n, "array index")
		if k < 0 {
			in.progPanic("index out of range")
		}
		return xv.sub(k)
	case SliceV:
		if !idx.IsConst && xv.Len > 0 && xv.Len <= in.cfg.MaxSymIndex {
			if !in.branch(in.s.BVCmp("bvult", idx, BVConst(uint64(xv.Len), idx.Sort.W))) {
				in.progPanic(fmt.Sprintf("index out of range [%s] with length %d", idx.S, xv.Len))
			}
			return Ptr{Obj: xv.Obj}.subSym(idx, xv.Len, xv.Off)
		}
		k := in.concretize(idx, xv.Len, "slice index")
		if k < 0 {
			in.progPanic(fmt.Sprintf("index out of range [%s] with length %d", idx.S, xv.Len))
		}
		return in.sliceElemPtr(xv, k)
	}
	panic(abort("unmodelled", fmt.Sprintf("IndexAddr on %T", x)))
}

func (in *Interp) slice(fr *Frame, i *ssa.Slice) Val {
	x := in.get(fr, i.X)
	bound := func(v ssa.Value, def int) int {
		if v == nil {
			return def
		}
		t := in.get(fr, v).(*Term)
		if t.IsConst {
			return int(sext(t.C, t.Sort.W))
		}
		k := in.concretize(t, in.cfg.MaxIndexSplit, "slice bound")
		if k < 0 {
			return 1 << 40 // out of every range: reported as bounds failure below
		}
		return k
	}
	switch xv := x.(type) {
	case string:
		lo, hi := bound(i.Low, 0), bound(i.High, len(xv))
		if lo < 0 || hi > len(xv) || lo > hi {
			in.progPanic("slice bounds out of range")
		}
		return xv[lo:hi]
	case SliceV:
		lo, hi := bound(i.Low, 0), bound(i.High, xv.Len)
		mx := bound(i.Max, xv.Cap)
		if lo < 0 || hi > xv.Cap || lo > hi || mx > xv.Cap || hi > mx {
			in.progPanic(fmt.Sprintf("slice bounds out of range [%d:%d:%d] with capacity %d", lo, hi, mx, xv.Cap))
		}
		if xv.Obj == nil {
			return SliceV{}
		}
		return SliceV{Obj: xv.Obj, Off: xv.Off + lo, Len: hi - lo, Cap: mx - lo}
	case Ptr: // *array
		if xv.Obj == nil {
			in.progPanic("nil pointer dereference")
		}
		arr := in.loadRef(xv).(*ArrayV)
		n := len(arr.E)
		lo, hi := bound(i.Low, 0), bound(i.High, n)
		mx := bound(i.Max, n)
		if lo < 0 || hi > n || lo > hi || mx > n || hi > mx {
			in.progPanic("slice bounds out of range")
		}
		if len(xv.Path) != 0 {
			// array embedded in another object: slices over it alias through a view object sharing the cells
			return SliceV{Obj: &Obj{V: arr, ID: -1, Name: "view"}, Off: lo, Len: hi - lo, Cap: mx - lo}
		}
		return SliceV{Obj: xv.Obj, Off: lo, Len: hi - lo, Cap: mx - lo}
	}
	panic(abort("unmodelled", fmt.Sprintf("Slice on %T", x)))
}

// ---------------------------------------------------------------------------
// maps

func (in *Interp) keyEq(a, b Val) *Term { return in.valEq(a, b) }

func (in *Interp) mapFind(m *MapObj, k Val) int {
	for i, e := range m.Entries {
		eq := in.keyEq(e.K, k)
		if in.branch(eq) {
			return i
		}
	}
	return -1
}

func (in *Interp) mapSet(m *MapObj, k, v Val) {
	if i := in.mapFind(m, k); i >= 0 {
		m.Entries[i].V = v
		return
	}
	m.Entries = append(m.Entries, mapEntry{k, v})
}

func (in *Interp) lookup(fr *Frame, i *ssa.Lookup) Val {
	x := in.get(fr, i.X)
	switch xv := x.(type) {
	case MapV:
		var res Val
		ok := false
		if xv.M != nil {
			if k := in.mapFind(xv.M, in.get(fr, i.Index)); k >= 0 {
				res, ok = deepCopy(xv.M.Entries[k].V), true
			}
		}
		if !ok {
			res = in.zero(i.X.Type().Underlying().(*types.Map).Elem())
		}
		if i.CommaOk {
			return TupleV{res, BoolConst(ok)}
		}
		return res
	case string:
		idx := in.get(fr, i.Index).(*Term)
		k := in.concretize(idx, len(xv), "string index")
		if k < 0 {
			in.progPanic("index out of range")
		}
		return BVConst(uint64(xv[k]), 8)
	}
	panic(abort("unmodelled", fmt.Sprintf("Lookup on %T", x)))
}

func (in *Interp) next(fr *Frame, i *ssa.Next) Val {
	it := in.get(fr, i.Iter).(*rangeIter)
	if it.isStr {
		if it.pos >= len(it.str) {
			return TupleV{BoolConst(false), BVConst(0, 64), BVConst(0, 32)}
		}
		r := it.str[it.pos] // ASCII only
		if r >= 0x80 {
			panic(abort("unmodelled", "range over non-ASCII string"))
		}
		p := it.pos
		it.pos++
		return TupleV{BoolConst(true), BVConst(uint64(p), 64), BVConst(uint64(r), 32)}
	}
	if it.m == nil || len(it.remain) == 0 {
		mt := i.Iter.(*ssa.Range).X.Type().Underlying().(*types.Map)
		return TupleV{BoolConst(false), in.zero(mt.Key()), in.zero(mt.Elem())}
	}
	// iteration order is a schedule: every remaining entry may come next
	k := 0
	if len(it.remain) > 1 && in.cfg.MapOrders {
		guards := make([]*Term, len(it.remain))
		for j := range guards {
			guards[j] = BoolConst(true)
		}
		k = in.ex.DecideFree(in, len(it.remain), "map-order")
	}
	e := it.snap[it.remain[k]]
	it.remain = append(append([]int{}, it.remain[:k]...), it.remain[k+1:]...)
	// entries deleted during the iteration are not produced (Go semantics); values are read from the live map
	for _, cur := range it.m.Entries {
		if sameKey(cur.K, e.K) {
			return TupleV{BoolConst(true), e.K, deepCopy(cur.V)}
		}
	}
	return in.next(fr, i)
}

func sameKey(a, b Val) bool {
	switch x := a.(type) {
	case *Term:
		y, ok := b.(*Term)
		return ok && x.S == y.S
	case string:
		y, ok := b.(string)
		return ok && x == y
	case *ArrayV:
		y, ok := b.(*ArrayV)
		if !ok || len(x.E) != len(y.E) {
			return false
		}
		for i := range x.E {
			if !sameKey(x.E[i], y.E[i]) {
				return false
			}
		}
		return true
	case *StructV:
		y, ok := b.(*StructV)
		if !ok || len(x.F) != len(y.F) {
			return false
		}
		for i := range x.F {
			if !sameKey(x.F[i], y.F[i]) {
				return false
			}
		}
		return true
	}
	return false
}

// ---------------------------------------------------------------------------
// builtins

func (in *Interp) builtin(fr *Frame, name string, args []Val, c *ssa.CallCommon) Val {
	switch name {
	case "len":
		switch x := args[0].(type) {
		case SliceV:
			return BVConst(uint64(x.Len), 64)
		case string:
			return BVConst(uint64(len(x)), 64)
		case MapV:
			if x.M == nil {
				return BVConst(0, 64)
			}
			return BVConst(uint64(len(x.M.Entries)), 64)
		case *ArrayV:
			return BVConst(uint64(len(x.E)), 64)
		case Ptr:
			return BVConst(uint64(len(in.loadRef(x).(*ArrayV).E)), 64)
		case ChanV:
			if x.C == nil {
				return BVConst(0, 64)
			}
			return BVConst(uint64(len(x.C.Queue)), 64)
		}
	case "cap":
		switch x := args[0].(type) {
		case SliceV:
			return BVConst(uint64(x.Cap), 64)
		case *ArrayV:
			return BVConst(uint64(len(x.E)), 64)
		case ChanV:
			if in.sched != nil && x.C != nil {
				return BVConst(uint64(x.C.Cap), 64)
			}
			return BVConst(1<<20, 64)
		}
	case "append":
		s := args[0].(SliceV)
		var add []Val
		switch t := args[1].(type) {
		case SliceV:
			for k := 0; k < t.Len; k++ {
				add = append(add, in.sliceGet(t, k))
			}
		case string:
			for k := 0; k < len(t); k++ {
				add = append(add, BVConst(uint64(t[k]), 8))
			}
		default:
			panic(abort("internal", "append of non-slice"))
		}
		if len(add) == 0 {
			return s
		}
		if s.Obj != nil && s.Len+len(add) <= s.Cap {
			arr := s.Obj.V.(*ArrayV)
			for k, v := range add {
				arr.E[s.Off+s.Len+k] = deepCopy(v)
			}
			return SliceV{Obj: s.Obj, Off: s.Off, Len: s.Len + len(add), Cap: s.Cap}
		}
		ncap := s.Len + len(add)
		if d := 2 * s.Cap; d > ncap && s.Cap < 256 {
			ncap = d
		}
		var elem types.Type
		if c != nil {
			elem = c.Args[0].Type().Underlying().(*types.Slice).Elem()
		}
		arr := &ArrayV{E: make([]Val, ncap)}
		for k := 0; k < s.Len; k++ {
			arr.E[k] = in.sliceGet(s, k)
		}
		for k, v := range add {
			arr.E[s.Len+k] = deepCopy(v)
		}
		for k := s.Len + len(add); k < ncap; k++ {
			if elem != nil {
				arr.E[k] = in.zero(elem)
			} else {
				arr.E[k] = deepCopy(add[0])
			}
		}
		return SliceV{Obj: in.newObj(arr, "append"), Off: 0, Len: s.Len + len(add), Cap: ncap}
	case "copy":
		dst := args[0].(SliceV)
		n := dst.Len
		switch src := args[1].(type) {
		case SliceV:
			if src.Len < n {
				n = src.Len
			}
			tmp := make([]Val, n)
			for k := 0; k < n; k++ {
				tmp[k] = in.sliceGet(src, k)
			}
			for k := 0; k < n; k++ {
				in.store(in.sliceElemPtr(dst, k), tmp[k])
			}
		case string:
			if len(src) < n {
				n = len(src)
			}
			for k := 0; k < n; k++ {
				in.store(in.sliceElemPtr(dst, k), BVConst(uint64(src[k]), 8))
			}
		}
		return BVConst(uint64(n), 64)
	case "delete":
		m := args[0].(MapV)
		if m.M != nil {
			if k := in.mapFind(m.M, args[1]); k >= 0 {
				m.M.Entries = append(append([]mapEntry{}, m.M.Entries[:k]...), m.M.Entries[k+1:]...)
			}
		}
		return nil
	case "panic":
		panic(&ProgPanic{Val: args[0], Msg: "panic"})
	case "recover":
		if len(in.panics) > 0 {
			st := in.panics[len(in.panics)-1]
			if !st.recovered {
				st.recovered = true
				if iv, ok := st.pp.Val.(IfaceV); ok {
					return iv
				}
				return IfaceV{T: types.Typ[types.String], V: st.pp.Msg}
			}
		}
		return IfaceV{}
	case "close":
		if ch, ok := args[0].(ChanV); ok && ch.C != nil {
			if in.sched != nil && ch.C.Closed {
				in.progPanic("close of closed channel")
			}
			ch.C.Closed = true
		}
		return nil
	case "print", "println":
		return nil
	case "min", "max":
		r := args[0].(*Term)
		signed := c != nil && isSigned(c.Args[0].Type())
		for _, a := range args[1:] {
			b := a.(*Term)
			var lt *Term
			if signed {
				lt = in.s.BVCmp("bvslt", b, r)
			} else {
				lt = in.s.BVCmp("bvult", b, r)
			}
			if name == "max" {
				lt = in.s.Not(in.s.Or(lt, in.s.Eq(b, r)))
			}
			r = in.s.Ite(lt, b, r)
		}
		return r
	case "clear":
		switch x := args[0].(type) {
		case MapV:
			if x.M != nil {
				x.M.Entries = nil
			}
		case SliceV:
			if c != nil {
				et := c.Args[0].Type().Underlying().(*types.Slice).Elem()
				for k := 0; k < x.Len; k++ {
					in.store(in.sliceElemPtr(x, k), in.zero(et))
				}
			}
		}
		return nil
	case "ssa:wrapnilchk":
		if p, ok := args[0].(Ptr); ok && p.Obj == nil {
			in.progPanic("value method called using nil pointer")
		}
		return args[0]
	}
	panic(abort("unmodelled", fmt.Sprintf("builtin %s(%T...)", name, args[0])))
}

// sortedKeys helper (deterministic iteration of Go maps inside the interpreter itself)
func sortedKeys(m map[string]int) []string {
	ks := make([]string, 0, len(m))
	for k := range m {
		ks = append(ks, k)
	}
	sort.Strings(ks)
	return ks
}
