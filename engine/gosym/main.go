package main

// gosym: symbolic execution of Go SSA (from /repo's current source) to SMT-LIB2.
//
//   gosym -dir /repo -pkg ./constraint/tinyfield -harness h1.go[,h2.go] [-entry name] -out res.json

import (
	"math/big"
	"encoding/json"
	"flag"
	"fmt"
	"io"
	"os"
	"path/filepath"
	"sort"
	"strings"
	"time"

	"go/types"

	"golang.org/x/tools/go/packages"
	"golang.org/x/tools/go/ssa"
	"golang.org/x/tools/go/ssa/ssautil"
)

var logw io.Writer = os.Stderr

type Config struct {
	Unwind        int
	MaxDepth      int
	MaxSteps      int
	MaxIndexSplit int
	Scheduled     bool // goroutines under the cooperative scheduler (sched.go)
	MaxPreempt    int
	MaxSymIndex   int
	MaxPaths      int
	MapOrders     bool
	PanicOK       bool
	InitPkgs      []string
	Field         FieldModel
	CodecConsumes bool // the abstract field-vector codec moves 4 + n*size bytes through the caller's reader / writer
	AlgebraCrypto bool // group elements are their discrete logarithms (reals)
	Summaries     map[string]*ssa.Function // callee name suffix -> harness function standing in for it (proved equivalent by its own harness)
	summaryNames  map[string]string
	onLock        func(in *Interp, name string, args []Val)
	extra         []func(in *Interp, fn *ssa.Function, pkg, name string) StubFn
}

func (c *Config) allowed(fn *ssa.Function) bool { return true }

func (c *Config) initPkg(path string) bool {
	for _, p := range c.InitPkgs {
		if p == path {
			return true
		}
	}
	return false
}

func (c *Config) extraStub(in *Interp, fn *ssa.Function, pkg, name string) StubFn {
	for _, f := range c.extra {
		if s := f(in, fn, pkg, name); s != nil {
			return s
		}
	}
	return nil
}

type PathRec struct {
	Outcome string `json:"outcome"`
	Msg     string `json:"msg,omitempty"`
	Trace   string `json:"trace,omitempty"`
}

type HarnessResult struct {
	Harness   string         `json:"harness"`
	Pkg       string         `json:"pkg"`
	Paths     int            `json:"paths"`
	Outcomes  map[string]int `json:"outcomes"`
	Asserts   int            `json:"asserts"`
	Failures  []Failure      `json:"failures"`
	Reach     []string       `json:"reach"`
	Aborted   []PathRec      `json:"aborted"`
	Queries   int            `json:"queries"`
	Sat       int            `json:"sat"`
	Unsat     int            `json:"unsat"`
	Unknown   int            `json:"unknown"`
	SolverS   float64        `json:"solver_s"`
	WallS     float64        `json:"wall_s"`
	Encoded   map[string]int `json:"encoded"`
	Stubs     map[string]int `json:"stubs"`
	Forks     int            `json:"forks"`
	Steps     int            `json:"steps"`
	Bounds    map[string]int `json:"bounds"`
	Samples   []string       `json:"samples"`
	Directives []string      `json:"directives,omitempty"`
}

func main() {
	dir := flag.String("dir", "/repo", "module directory")
	pkgPat := flag.String("pkg", "", "package pattern (relative to dir)")
	harness := flag.String("harness", "", "comma separated harness files (overlaid into the package directory)")
	entry := flag.String("entry", "", "harness function (default: every verifHarness_* function)")
	out := flag.String("out", "", "result json")
	solverBin := flag.String("solver", "z3", "solver binary")
	timeout := flag.Int("timeout", 60000, "per-query timeout ms")
	unwind := flag.Int("unwind", 64, "unwinding limit per frame")
	subst := flag.String("subst", "", "NAME=value,... textual substitutions applied to harness sources")
	smtlog := flag.String("smtlog", "", "write the SMT-LIB transcript here")
	maxpaths := flag.Int("maxpaths", 20000, "path budget")
	model := flag.String("model", "gfp:13", "field model: real | gfp:<prime>")
	scan := flag.String("scan-map-ranges", "", "list every `range` over a map in the given package patterns (space separated) and exit")
	flag.Parse()
	if *scan != "" {
		scanMapRanges(*dir, strings.Fields(*scan), *out)
		return
	}

	cfg := &Config{Unwind: *unwind, MaxDepth: 200, MaxSteps: 2000000, MaxIndexSplit: 16, MaxSymIndex: 12, MaxPaths: *maxpaths}
	registerCryptoStubs(cfg)
	if *model == "real" {
		cfg.Field = realModel{}
	} else {
		var p uint64
		fmt.Sscanf(*model, "gfp:%d", &p)
		if p < 3 || p > 251 {
			fatal(fmt.Errorf("bad field model %s", *model))
		}
		cfg.Field = gfpModel{p: p}
	}

	overlay := map[string][]byte{}
	absdir, _ := filepath.Abs(filepath.Join(*dir, *pkgPat))
	var directives []string
	for k, h := range strings.Split(*harness, ",") {
		if h == "" {
			continue
		}
		b, err := os.ReadFile(h)
		if err != nil {
			fatal(err)
		}
		src := string(b)
		if *subst != "" {
			for _, kv := range strings.Split(*subst, ",") {
				p := strings.SplitN(kv, "=", 2)
				if len(p) == 2 {
					src = strings.ReplaceAll(src, p[0], p[1])
				}
			}
		}
		for _, l := range strings.Split(src, "\n") {
			if strings.HasPrefix(l, "//verif:") {
				directives = append(directives, strings.TrimPrefix(l, "//verif:"))
			}
		}
		overlay[filepath.Join(absdir, fmt.Sprintf("zz_verif_harness_%d.go", k))] = []byte(src)
	}
	for _, d := range directives {
		f := strings.Fields(d)
		if len(f) < 2 {
			continue
		}
		switch f[0] {
		case "init":
			cfg.InitPkgs = append(cfg.InitPkgs, f[1:]...)
		case "maporders":
			cfg.MapOrders = f[1] == "true"
		case "unwind":
			fmt.Sscan(f[1], &cfg.Unwind)
		case "indexsplit":
			fmt.Sscan(f[1], &cfg.MaxIndexSplit)
		case "crypto":
			cfg.AlgebraCrypto = f[1] == "algebra"
		case "codec":
			cfg.CodecConsumes = f[1] == "consumes"
		case "goroutines":
			cfg.Scheduled = f[1] == "scheduled"
			cfg.MaxPreempt = 1
			for _, o := range f[2:] {
				fmt.Sscanf(o, "preempt=%d", &cfg.MaxPreempt)
			}
		case "symindex":
			fmt.Sscan(f[1], &cfg.MaxSymIndex)
		case "summarize":
			if len(f) >= 3 {
				if cfg.summaryNames == nil {
					cfg.summaryNames = map[string]string{}
				}
				cfg.summaryNames[f[1]] = f[2]
			}
		}
	}

	t0 := time.Now()
	pcfg := &packages.Config{
		Mode:    packages.LoadAllSyntax,
		Dir:     *dir,
		Overlay: overlay,
		Env:     append(os.Environ(), "GOFLAGS=-mod=mod", "GOPROXY=off", "GOSUMDB=off", "GOTOOLCHAIN=local"),
	}
	pkgs, err := packages.Load(pcfg, *pkgPat)
	if err != nil {
		fatal(err)
	}
	if packages.PrintErrors(pkgs) > 0 {
		fatal(fmt.Errorf("package load errors"))
	}
	prog, spkgs := ssautil.AllPackages(pkgs, ssa.InstantiateGenerics)
	target := spkgs[0]
	target.Build()
	loadS := time.Since(t0).Seconds()
	fmt.Fprintf(logw, "loaded %s in %.1fs\n", target.Pkg.Path(), loadS)

	cfg.Summaries = map[string]*ssa.Function{}
	for k, v := range cfg.summaryNames {
		fn := target.Func(v)
		if fn == nil {
			fatal(fmt.Errorf("summary function %s not found", v))
		}
		cfg.Summaries[k] = fn
	}

	var lw io.Writer
	if *smtlog != "" {
		f, err := os.Create(*smtlog)
		if err != nil {
			fatal(err)
		}
		defer f.Close()
		lw = f
	}

	var entries []*ssa.Function
	var names []string
	for n, m := range target.Members {
		if f, ok := m.(*ssa.Function); ok && strings.HasPrefix(n, "verifHarness_") {
			if *entry == "" || *entry == n {
				names = append(names, n)
				_ = f
			}
		}
	}
	sort.Strings(names)
	for _, n := range names {
		entries = append(entries, target.Func(n))
	}
	if len(entries) == 0 {
		fatal(fmt.Errorf("no harness entry found"))
	}

	var results []HarnessResult
	for _, e := range entries {
		s, err := NewSolver(*solverBin, *timeout, lw)
		if err != nil {
			fatal(err)
		}
		s.DumpDir = os.Getenv("GOSYM_DUMP")
		r := runHarness(prog, s, cfg, e)
		r.Pkg = target.Pkg.Path()
		r.Directives = directives
		s.Close()
		results = append(results, r)
		fmt.Fprintf(logw, "  slow queries (>1s): %d, %.1fs\n", s.Slow, s.SlowSeconds)
		fmt.Fprintf(logw, "%s: paths=%d asserts=%d failures=%d aborted=%d queries=%d (%.1fs solver, %.1fs wall)\n", r.Harness, r.Paths, r.Asserts, len(r.Failures), len(r.Aborted), r.Queries, r.SolverS, r.WallS)
	}
	res := map[string]interface{}{"load_s": loadS, "results": results, "field_model": cfg.Field.Name(), "solver": *solverBin}
	b, _ := json.MarshalIndent(res, "", " ")
	if *out != "" {
		os.WriteFile(*out, b, 0o644)
	} else {
		os.Stdout.Write(b)
	}
}

func fatal(err error) {
	fmt.Fprintln(os.Stderr, "gosym:", err)
	os.Exit(2)
}

func runHarness(prog *ssa.Program, s *Solver, cfg *Config, entry *ssa.Function) HarnessResult {
	t0 := time.Now()
	res := HarnessResult{Harness: entry.Name(), Outcomes: map[string]int{}, Encoded: map[string]int{}, Stubs: map[string]int{},
		Bounds: map[string]int{"unwind": cfg.Unwind, "max_index_split": cfg.MaxIndexSplit, "max_paths": cfg.MaxPaths}}
	ex := &Explorer{}
	reach := map[string]bool{}
	for {
		in := &Interp{prog: prog, s: s, ex: ex, cfg: cfg, globals: map[*ssa.Global]*Obj{}, reach: map[string]bool{}, once: map[string]bool{}, invMemo: map[string]*Term{}, bigVals: map[*Obj]*Term{}, bigField: map[*Obj]*Term{}, bigConc: map[*Obj]*big.Int{}, bigOpaque: map[*Obj]bool{}, memoTerms: map[string][]*Term{}, transcripts: map[*Obj]string{},
			encoded: map[string]int{}, stubs: map[string]int{}, initDone: map[*ssa.Package]bool{}}
		ex.pos = 0
		in.noSummary = strings.Contains(entry.Name(), "_nosummary_")
		s.ResetPath()
		if cfg.Scheduled {
			in.sched = newSched(cfg.MaxPreempt)
		}
		outcome, msg := runPath(in, entry)
		if in.sched != nil {
			in.sched.shutdown()
		}
		res.Paths++
		res.Outcomes[outcome]++
		res.Asserts += in.asserts
		res.Steps += in.steps
		res.Failures = append(res.Failures, in.failures...)
		for k := range in.reach {
			reach[k] = true
		}
		for k, v := range in.encoded {
			res.Encoded[k] += v
		}
		for k, v := range in.stubs {
			res.Stubs[k] += v
		}
		if outcome != "ok" && outcome != "pruned" && outcome != "panic" {
			if len(res.Aborted) < 50 {
				res.Aborted = append(res.Aborted, PathRec{Outcome: outcome, Msg: msg, Trace: ex.TraceString()})
			}
		}
		if len(res.Samples) < 4 {
			res.Samples = append(res.Samples, fmt.Sprintf("path %d: %s [%s] pc=%d conjuncts", res.Paths, outcome, ex.TraceString(), len(in.pc)))
		}
		if !ex.Next() {
			break
		}
		if res.Paths >= cfg.MaxPaths {
			res.Aborted = append(res.Aborted, PathRec{Outcome: "unwind", Msg: "path budget exhausted"})
			break
		}
	}
	for k := range reach {
		res.Reach = append(res.Reach, k)
	}
	sort.Strings(res.Reach)
	res.Queries, res.Sat, res.Unsat, res.Unknown, res.SolverS = s.Queries, s.Sat, s.Unsat, s.Unknown, s.Seconds
	res.Forks = ex.Forks
	res.WallS = time.Since(t0).Seconds()
	return res
}

func runPath(in *Interp, entry *ssa.Function) (outcome, msg string) {
	defer func() {
		r := recover()
		if r == nil {
			return
		}
		switch x := r.(type) {
		case *abortT:
			if x.kind == "assume" {
				outcome, msg = "pruned", x.msg
				return
			}
			outcome, msg = x.kind, x.msg
		case *ProgPanic:
			outcome, msg = "panic", x.Msg
			if !in.cfg.PanicOK {
				// an uncaught panic of the harness: violation, with a model of the path
				var want []*Term
				for _, n := range in.nondets {
					want = append(want, n.T)
				}
				rr, vals := in.s.CheckPC(in.pc, nil, want)
				if rr == RUnsat {
					outcome = "pruned"
					return
				}
				m := map[string]string{}
				for i, n := range in.nondets {
					if i < len(vals) {
						m[n.Name] = modelValue(vals[i])
					}
				}
				st := "sat"
				if rr == RUnknown {
					st = "unknown"
				}
				in.failures = append(in.failures, Failure{Msg: "uncaught panic: " + x.Msg, Model: m, Path: in.ex.Trace(), Kind: "panic", Status: st, Chooses: in.ex.Chooses()})
			}
		default:
			panic(r)
		}
	}()
	in.call(FuncV{Fn: entry}, nil, nil)
	return "ok", ""
}


// scanMapRanges lists every function of the given packages that ranges over a map
// (the only source of run-to-run nondeterminism in sequential Go besides time/rand/goroutines).
func scanMapRanges(dir string, patterns []string, out string) {
	pcfg := &packages.Config{Mode: packages.LoadAllSyntax, Dir: dir,
		Env: append(os.Environ(), "GOFLAGS=-mod=mod", "GOPROXY=off", "GOSUMDB=off", "GOTOOLCHAIN=local")}
	pkgs, err := packages.Load(pcfg, patterns...)
	if err != nil {
		fatal(err)
	}
	if packages.PrintErrors(pkgs) > 0 {
		fatal(fmt.Errorf("package load errors"))
	}
	prog, spkgs := ssautil.AllPackages(pkgs, 0)
	type site struct {
		Pkg, Func, Pos, Kind string
	}
	var sites []site
	seen := map[*ssa.Function]bool{}
	var visit func(fn *ssa.Function, pkg string)
	visit = func(fn *ssa.Function, pkg string) {
		if fn == nil || seen[fn] {
			return
		}
		seen[fn] = true
		for _, b := range fn.Blocks {
			for _, ins := range b.Instrs {
				switch x := ins.(type) {
				case *ssa.Range:
					if _, ok := x.X.Type().Underlying().(*types.Map); ok {
						sites = append(sites, site{pkg, fn.String(), prog.Fset.Position(x.Pos()).String(), "map-range"})
					}
				case *ssa.Store:
					// a write to a package-level variable outside package initialisation: state that survives a compilation
					if g, ok := x.Addr.(*ssa.Global); ok && fn.Name() != "init" && !strings.HasPrefix(fn.Name(), "init#") && fn.Synthetic == "" {
						sites = append(sites, site{pkg, fn.String(), prog.Fset.Position(x.Pos()).String(), "global-write:" + g.Name()})
					}
				case *ssa.MapUpdate:
					if u, ok := x.Map.(*ssa.UnOp); ok {
						if g, ok := u.X.(*ssa.Global); ok && fn.Name() != "init" && !strings.HasPrefix(fn.Name(), "init#") {
							sites = append(sites, site{pkg, fn.String(), prog.Fset.Position(x.Pos()).String(), "global-map-update:" + g.Name()})
						}
					}
				case *ssa.Call:
					// sync.Map / sync.Pool methods on a package-level variable
					if c := x.Call.StaticCallee(); c != nil && c.Pkg != nil && c.Pkg.Pkg.Path() == "sync" && len(x.Call.Args) > 0 {
						if g, ok := x.Call.Args[0].(*ssa.Global); ok && (c.Name() == "Store" || c.Name() == "LoadOrStore" || c.Name() == "Swap" || c.Name() == "CompareAndSwap") && fn.Name() != "init" {
							sites = append(sites, site{pkg, fn.String(), prog.Fset.Position(x.Pos()).String(), "global-syncmap-write:" + g.Name()})
						}
					}
				case *ssa.Go:
					sites = append(sites, site{pkg, fn.String(), prog.Fset.Position(x.Pos()).String(), "go"})
				case *ssa.Select:
					sites = append(sites, site{pkg, fn.String(), prog.Fset.Position(x.Pos()).String(), "select"})
				}
			}
		}
		for _, a := range fn.AnonFuncs {
			visit(a, pkg)
		}
	}
	for _, sp := range spkgs {
		if sp == nil {
			continue
		}
		sp.Build()
		for _, m := range sp.Members {
			switch x := m.(type) {
			case *ssa.Function:
				visit(x, sp.Pkg.Path())
			case *ssa.Type:
				if named, ok := x.Type().(*types.Named); ok {
					for i := 0; i < named.NumMethods(); i++ {
						visit(prog.FuncValue(named.Method(i)), sp.Pkg.Path())
					}
				}
				for _, t := range []types.Type{x.Type(), types.NewPointer(x.Type())} {
					ms := prog.MethodSets.MethodSet(t)
					for i := 0; i < ms.Len(); i++ {
						if f := prog.MethodValue(ms.At(i)); f != nil && f.Pkg == sp {
							visit(f, sp.Pkg.Path())
						}
					}
				}
			}
		}
	}
	sort.Slice(sites, func(i, j int) bool { return sites[i].Pos < sites[j].Pos })
	b, _ := json.MarshalIndent(sites, "", " ")
	if out != "" {
		os.WriteFile(out, b, 0o644)
	} else {
		os.Stdout.Write(b)
	}
}
