package main

// bigint.go: math/big. Concrete values are evaluated with the real math/big (arbitrary precision,
// through reflection); a big.Int written by Element.BigInt carries a field value; symbolic machine
// integers below 2^64 are tracked for a few operations; anything else is opaque.

import (
	"fmt"
	"go/types"
	"math/big"
	"reflect"

	"golang.org/x/tools/go/ssa"
)

// The side tables are keyed by a marker object stored in the big.Int's own `abs` slice, so that a
// big.Int copied by value (e.g. the elements of a []big.Int passed around as interface values)
// keeps its tracked value, and two elements of one slice do not share an entry.

// bk: the key of the big.Int a pointer designates (nil: never written)
func (in *Interp) bk(v Val) *Obj {
	p, ok := v.(Ptr)
	if !ok || p.Obj == nil {
		return nil
	}
	sv, ok := in.loadRef(p).(*StructV)
	if !ok || len(sv.F) != 2 {
		return p.Obj
	}
	if sl, ok := sv.F[1].(SliceV); ok && sl.Obj != nil {
		return sl.Obj
	}
	return nil
}

// bkw: a fresh key for a big.Int about to be (re)written
func (in *Interp) bkw(v Val) *Obj {
	p, ok := v.(Ptr)
	if !ok || p.Obj == nil {
		panic(abort("unmodelled", "big.Int receiver is not addressable"))
	}
	sv, ok := in.loadRef(p).(*StructV)
	if !ok || len(sv.F) != 2 {
		return p.Obj
	}
	o := in.newObj(&ArrayV{}, "big.Int value")
	sv.F[1] = SliceV{Obj: o}
	return o
}

func (in *Interp) bigForget(v Val) {
	if k := in.bk(v); k != nil {
		delete(in.bigConc, k)
	}
}

// bigConcOf: the concrete value of a big.Int object, if it has one
func (in *Interp) bigConcOf(o *Obj) (*big.Int, bool) {
	if o == nil {
		return new(big.Int), true // never written: zero value
	}
	if _, f := in.bigField[o]; f {
		return nil, false
	}
	if in.bigOpaque[o] {
		return nil, false
	}
	if c, ok := in.bigConc[o]; ok {
		return c, true
	}
	if t, ok := in.bigVals[o]; ok {
		if !t.IsConst {
			return nil, false
		}
		return new(big.Int).SetUint64(t.C), true
	}
	return new(big.Int), true // never written: zero value
}

func (in *Interp) bigSetConc(o *Obj, v *big.Int) {
	in.bigConc[o] = new(big.Int).Set(v)
	delete(in.bigField, o)
	delete(in.bigOpaque, o)
	if v.IsUint64() {
		in.bigVals[o] = BVConst(v.Uint64(), 64)
	} else if v.IsInt64() {
		in.bigVals[o] = BVConst(uint64(v.Int64()), 64)
	} else {
		delete(in.bigVals, o)
	}
}

var bigIntPtrType = reflect.TypeOf((*big.Int)(nil))

// bigConcreteCall evaluates a *big.Int method with the real library when all operands are concrete
func (in *Interp) bigConcreteCall(fn *ssa.Function, name string, a []Val) (res Val, ok bool) {
	recvP, isP := a[0].(Ptr)
	if !isP || recvP.Obj == nil {
		return nil, false
	}
	m, found := bigIntPtrType.MethodByName(name)
	if !found {
		return nil, false
	}
	mt := m.Type // includes receiver
	if mt.IsVariadic() || mt.NumIn() != len(a) {
		return nil, false
	}
	conc := map[string]*big.Int{}
	concPtr := map[string]Ptr{}
	argv := make([]reflect.Value, len(a))
	for i := 0; i < len(a); i++ {
		pt := mt.In(i)
		switch {
		case pt == bigIntPtrType:
			p, isPtr := a[i].(Ptr)
			if !isPtr {
				return nil, false
			}
			if p.Obj == nil {
				argv[i] = reflect.Zero(pt)
				continue
			}
			key := ptrKey2(p)
			c, have := conc[key]
			if !have {
				v, okc := in.bigConcOf(in.bk(p))
				if !okc {
					return nil, false
				}
				c = new(big.Int).Set(v)
				conc[key] = c
				concPtr[key] = p
			}
			argv[i] = reflect.ValueOf(c)
		case pt.Kind() == reflect.Int || pt.Kind() == reflect.Int64:
			t, isT := a[i].(*Term)
			if !isT || !t.IsConst {
				return nil, false
			}
			argv[i] = reflect.ValueOf(sext(t.C, 64)).Convert(pt)
		case pt.Kind() == reflect.Uint || pt.Kind() == reflect.Uint64:
			t, isT := a[i].(*Term)
			if !isT || !t.IsConst {
				return nil, false
			}
			argv[i] = reflect.ValueOf(t.C).Convert(pt)
		case pt.Kind() == reflect.Slice && pt.Elem().Kind() == reflect.Uint8:
			sl, isS := a[i].(SliceV)
			if !isS {
				return nil, false
			}
			b := make([]byte, sl.Len)
			for k := 0; k < sl.Len; k++ {
				t, isT := in.sliceGet(sl, k).(*Term)
				if !isT || !t.IsConst {
					return nil, false
				}
				b[k] = byte(t.C)
			}
			argv[i] = reflect.ValueOf(b)
		default:
			return nil, false
		}
	}
	// result kinds we can map back
	for i := 0; i < mt.NumOut(); i++ {
		ot := mt.Out(i)
		switch {
		case ot == bigIntPtrType:
		case ot.Kind() == reflect.Int, ot.Kind() == reflect.Int64, ot.Kind() == reflect.Uint, ot.Kind() == reflect.Uint64, ot.Kind() == reflect.Bool:
		case ot.Kind() == reflect.Slice && ot.Elem().Kind() == reflect.Uint8:
		default:
			return nil, false
		}
	}
	var outs []reflect.Value
	var pan interface{}
	func() {
		defer func() { pan = recover() }()
		outs = m.Func.Call(argv)
	}()
	if pan != nil {
		in.progPanic("math/big: " + reflectString(pan))
	}
	// FillBytes / byte-slice arguments may have been written
	for i := 0; i < len(a); i++ {
		if sl, isS := a[i].(SliceV); isS && mt.In(i).Kind() == reflect.Slice && (name == "FillBytes") {
			b := argv[i].Bytes()
			for k := 0; k < sl.Len; k++ {
				in.store(in.sliceElemPtr(sl, k), BVConst(uint64(b[k]), 8))
			}
		}
	}
	for k, c := range conc {
		if old, okc := in.bigConcOf(in.bk(concPtr[k])); okc && old.Cmp(c) == 0 && in.bk(concPtr[k]) != nil {
			continue // unchanged operand keeps its key
		}
		in.bigSetConc(in.bkw(concPtr[k]), c)
	}
	mapOut := func(v reflect.Value, idx int) Val {
		ot := mt.Out(idx)
		switch {
		case ot == bigIntPtrType:
			if v.IsNil() {
				return Ptr{}
			}
			rp := v.Interface().(*big.Int)
			for i := 0; i < len(a); i++ {
				if mt.In(i) == bigIntPtrType && argv[i].Interface().(*big.Int) == rp {
					return a[i]
				}
			}
			et := fn.Signature.Results().At(idx).Type().(*types.Pointer).Elem()
			o := in.newObj(in.zero(et), "big.Int")
			in.bigSetConc(in.bkw(Ptr{Obj: o}), rp)
			return Ptr{Obj: o}
		case ot.Kind() == reflect.Bool:
			return BoolConst(v.Bool())
		case ot.Kind() == reflect.Int, ot.Kind() == reflect.Int64:
			return BVConst(uint64(v.Int()), 64)
		case ot.Kind() == reflect.Uint, ot.Kind() == reflect.Uint64:
			return BVConst(v.Uint(), 64)
		default:
			b := v.Bytes()
			if name == "FillBytes" {
				return a[1]
			}
			ts := make([]*Term, len(b))
			for k := range b {
				ts[k] = BVConst(uint64(b[k]), 8)
			}
			return in.bytesSlice(ts)
		}
	}
	switch len(outs) {
	case 0:
		return nil, true
	case 1:
		return mapOut(outs[0], 0), true
	}
	tv := make(TupleV, len(outs))
	for i := range outs {
		tv[i] = mapOut(outs[i], i)
	}
	return tv, true
}

func reflectString(v interface{}) string {
	if e, ok := v.(error); ok {
		return e.Error()
	}
	if s, ok := v.(string); ok {
		return s
	}
	return "panic"
}

// bigIntSymbolicStub: the few operations tracked for non-concrete values
func bigIntSymbolicStub(name string, sig *types.Signature, bigVal func(in *Interp, v Val) *Term) StubFn {
	switch name {
	case "Lsh":
		return func(in *Interp, fn *ssa.Function, a []Val) Val {
			x, n := bigVal(in, a[1]), a[2].(*Term)
			if !n.IsConst || n.C > 40 || !x.IsConst || x.C > 1<<20 {
				panic(abort("unmodelled", "big.Int.Lsh beyond the tracked 64-bit range"))
			}
			in.bigVals[in.bkw(a[0])] = BVConst(x.C<<n.C, 64)
			return a[0]
		}
	case "Set":
		return func(in *Interp, fn *ssa.Function, a []Val) Val {
			if sk := in.bk(a[1]); sk != nil {
				if t, ok := in.bigField[sk]; ok {
					in.bigField[in.bkw(a[0])] = t
					return a[0]
				}
			}
			v := bigVal(in, a[1])
			in.bigVals[in.bkw(a[0])] = v
			return a[0]
		}
	case "FillBytes":
		return func(in *Interp, fn *ssa.Function, a []Val) Val {
			buf := a[1].(SliceV)
			if t, ok := in.bigField[in.bk(a[0])]; ok && in.bk(a[0]) != nil {
				// big-endian encoding of a field value: the same bytes Element.Marshal produces
				ts := in.memoBytes(t.S, buf.Len, "elembytes")
				for i := 0; i < buf.Len; i++ {
					in.store(in.sliceElemPtr(buf, i), ts[i])
				}
				return buf
			}
			x := bigVal(in, a[0])
			if !x.IsConst {
				panic(abort("unmodelled", "big.Int.FillBytes of a symbolic machine integer"))
			}
			for i := 0; i < buf.Len; i++ {
				sh := uint(8 * (buf.Len - 1 - i))
				b := uint64(0)
				if sh < 64 {
					b = (x.C >> sh) & 0xff
				}
				in.store(in.sliceElemPtr(buf, i), BVConst(b, 8))
			}
			return buf
		}
	case "SetUint64", "SetInt64":
		return func(in *Interp, fn *ssa.Function, a []Val) Val {
			in.bigVals[in.bkw(a[0])] = a[1].(*Term)
			return a[0]
		}
	case "Uint64", "Int64":
		return func(in *Interp, fn *ssa.Function, a []Val) Val { return bigVal(in, a[0]) }
	case "IsUint64", "IsInt64":
		return func(in *Interp, fn *ssa.Function, a []Val) Val { return BoolConst(true) }
	}
	return nil
}


func ptrKey2(p Ptr) string { return fmt.Sprintf("%d:%v", p.Obj.ID, p.Path) }
