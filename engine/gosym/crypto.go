package main

// crypto.go: stubs for gnark-crypto's curve / pairing / hashing layer.
//
// Opaque model: results of group operations, pairings and hashes are fresh
// symbolic values ("nondeterministic stubs constrained only by their documented
// contract"); the bookkeeping part of each contract that gnark relies on (length
// checks, sizes of marshalled values, error returns) is reproduced from
// gnark-crypto's source. Predicates (IsInSubGroup, Equal, pairing checks) are
// unconstrained booleans, so both outcomes are explored.

import (
	"math/big"
	"fmt"
	"go/constant"
	"go/types"
	"strings"

	"golang.org/x/tools/go/ssa"
)

func isEccPkg(path string) bool {
	return strings.HasPrefix(path, "github.com/consensys/gnark-crypto/ecc/") || strings.HasPrefix(path, "github.com/consensys/gnark-crypto/field/") ||
		path == "github.com/consensys/gnark-crypto/ecc" || strings.HasPrefix(path, "github.com/consensys/gnark-crypto/fiat-shamir") ||
		strings.HasPrefix(path, "github.com/consensys/gnark-crypto/hash") || strings.HasPrefix(path, "github.com/consensys/gnark-crypto/utils") ||
		strings.HasPrefix(path, "github.com/consensys/gnark-crypto/kzg")
}

func pkgIntConst(in *Interp, pkgPath, name string) (int, bool) {
	p := in.prog.ImportedPackage(pkgPath)
	if p == nil {
		return 0, false
	}
	c := p.Const(name)
	if c == nil {
		return 0, false
	}
	v, ok := constant.Int64Val(constant.ToInt(c.Value.Value))
	return int(v), ok
}

func (in *Interp) freshBytes(n int, name string) SliceV {
	sl := in.makeSlice(types.Typ[types.Uint8], n, n)
	arr := sl.Obj.V.(*ArrayV)
	for i := 0; i < n; i++ {
		arr.E[i] = in.fresh(fmt.Sprintf("%s[%d]", name, i), BVSort(8))
	}
	return sl
}

// valKey flattens a value made of terms into a string that identifies it syntactically
func valKey(v Val) string {
	switch x := v.(type) {
	case *Term:
		return x.S
	case *ArrayV:
		r := "["
		for _, e := range x.E {
			r += valKey(e) + ","
		}
		return r + "]"
	case *StructV:
		r := "{"
		for _, e := range x.F {
			r += valKey(e) + ","
		}
		return r + "}"
	case StructV:
		r := "{"
		for _, e := range x.F {
			r += valKey(e) + ","
		}
		return r + "}"
	}
	panic(abort("unmodelled", fmt.Sprintf("valKey of %T", v)))
}

// memoBytes: n opaque bytes that are a function of key (an encoding of a value: the same value
// always encodes to the same bytes; nothing else is known about them)
func (in *Interp) memoBytes(key string, n int, name string) []*Term {
	k := fmt.Sprintf("%s|%d|%s", name, n, key)
	if r, ok := in.memoTerms[k]; ok {
		return r
	}
	r := make([]*Term, n)
	for i := range r {
		r[i] = in.fresh(fmt.Sprintf("%s[%d]", name, i), BVSort(8))
	}
	in.memoTerms[k] = r
	return r
}

func (in *Interp) bytesSlice(ts []*Term) SliceV {
	sl := in.makeSlice(types.Typ[types.Uint8], len(ts), len(ts))
	arr := sl.Obj.V.(*ArrayV)
	for i, t := range ts {
		arr.E[i] = t
	}
	return sl
}

// errOrNil forks: the callee reports an error, or succeeds
func (in *Interp) errOrNil(what string) Val {
	if in.ex.DecideFree(in, 2, "err:"+what) == 1 {
		return in.newError(what + " failed")
	}
	return IfaceV{}
}

// havoc overwrites the object behind p with an arbitrary value of its type
func (in *Interp) havoc(p Ptr, t types.Type, name string) {
	if p.Obj == nil {
		in.progPanic("nil pointer dereference")
	}
	in.store(p, in.nondetOf(t, name))
}

func resultsOf(in *Interp, fn *ssa.Function, vals ...Val) Val {
	if len(vals) == 1 {
		return vals[0]
	}
	return TupleV(vals)
}

func registerCryptoStubs(cfg *Config) {
	cfg.extra = append(cfg.extra, algebraStub, cryptoStub)
}

func hashSize(in *Interp, rn *types.Named) int {
	pkg := rn.Obj().Pkg().Path()
	switch {
	case pkg == "crypto/sha256":
		return 32
	case strings.HasSuffix(pkg, "/hash_to_field"):
		if n, ok := pkgIntConst(in, strings.TrimSuffix(pkg, "/hash_to_field"), "Bytes"); ok {
			return n
		}
	case pkg == "golang.org/x/crypto/sha3":
		return 32
	}
	return 32
}

func isHashType(rn *types.Named) bool {
	if rn == nil || rn.Obj().Pkg() == nil {
		return false
	}
	pkg := rn.Obj().Pkg().Path()
	return pkg == "crypto/sha256" || pkg == "golang.org/x/crypto/sha3" || strings.HasSuffix(pkg, "/hash_to_field")
}

func (in *Interp) newHashObj(pkgPath, typeName string) Val {
	p := in.prog.ImportedPackage(pkgPath)
	if p == nil {
		panic(abort("unmodelled", "hash package not loaded: "+pkgPath))
	}
	t := p.Type(typeName)
	if t == nil {
		panic(abort("unmodelled", "hash type not found: "+pkgPath+"."+typeName))
	}
	obj := in.newObj(&StructV{F: []Val{}}, "hash-state")
	return IfaceV{T: types.NewPointer(t.Type()), V: Ptr{Obj: obj}}
}

func cryptoStub(in *Interp, fn *ssa.Function, pkg, name string) StubFn {
	rn := recvNamed(fn)
	// ---- hash objects -------------------------------------------------------------
	if pkg == "crypto/sha256" && name == "New" && rn == nil {
		return func(in *Interp, fn *ssa.Function, a []Val) Val { return in.newHashObj("crypto/sha256", "digest") }
	}
	if strings.HasSuffix(pkg, "/hash_to_field") && name == "New" && rn == nil {
		return func(in *Interp, fn *ssa.Function, a []Val) Val { return in.newHashObj(pkg, "wrappedHashToField") }
	}
	if isHashType(rn) {
		switch name {
		// a hash is a deterministic opaque function of the bytes written since the last Reset
		case "Write":
			return func(in *Interp, fn *ssa.Function, a []Val) Val {
				if p, ok := a[0].(Ptr); ok && p.Obj != nil {
					sl := a[1].(SliceV)
					key := ""
					for i := 0; i < sl.Len; i++ {
						key += valKey(in.sliceGet(sl, i)) + ","
					}
					in.transcripts[p.Obj] += key
				}
				return TupleV{BVConst(uint64(a[1].(SliceV).Len), 64), IfaceV{}}
			}
		case "Sum":
			return func(in *Interp, fn *ssa.Function, a []Val) Val {
				b := a[1].(SliceV)
				n := hashSize(in, rn)
				out := in.makeSlice(types.Typ[types.Uint8], b.Len+n, b.Len+n)
				arr := out.Obj.V.(*ArrayV)
				for i := 0; i < b.Len; i++ {
					arr.E[i] = in.sliceGet(b, i)
				}
				var ts []*Term
				if p, ok := a[0].(Ptr); ok && p.Obj != nil {
					ts = in.memoBytes(rn.Obj().Pkg().Path()+"."+rn.Obj().Name()+"|"+in.transcripts[p.Obj], n, "digest")
				}
				for i := 0; i < n; i++ {
					if ts != nil {
						arr.E[b.Len+i] = ts[i]
					} else {
						arr.E[b.Len+i] = in.fresh(fmt.Sprintf("digest[%d]", i), BVSort(8))
					}
				}
				return out
			}
		case "Reset":
			return func(in *Interp, fn *ssa.Function, a []Val) Val {
				if p, ok := a[0].(Ptr); ok && p.Obj != nil {
					delete(in.transcripts, p.Obj)
				}
				return nil
			}
		case "Size":
			return func(in *Interp, fn *ssa.Function, a []Val) Val { return BVConst(uint64(hashSize(in, rn)), 64) }
		case "BlockSize":
			return func(in *Interp, fn *ssa.Function, a []Val) Val { return BVConst(64, 64) }
		}
	}
	// ---- math/big: small integers are tracked as 64-bit values (side table keyed by object), the rest is opaque
	if pkg == "math/big" {
		sig := fn.Signature
		bigVal := func(in *Interp, v Val) *Term {
			p, ok := v.(Ptr)
			if !ok || p.Obj == nil {
				panic(abort("unmodelled", "big.Int argument is not a pointer"))
			}
			if k := in.bk(p); k != nil {
				if t, ok := in.bigVals[k]; ok {
					return t
				}
			}
			return BVConst(0, 64)
		}
		if rn == nil && name == "NewInt" {
			return func(in *Interp, fn *ssa.Function, a []Val) Val {
				et := sig.Results().At(0).Type().(*types.Pointer).Elem()
				o := in.newObj(in.zero(et), "big.Int")
				k := in.bkw(Ptr{Obj: o})
				in.bigVals[k] = a[0].(*Term)
				if t := a[0].(*Term); t.IsConst {
					in.bigConc[k] = big.NewInt(sext(t.C, 64))
				} else {
					in.bigOpaque[k] = true
				}
				return Ptr{Obj: o}
			}
		}
		if rn != nil && rn.Obj().Name() == "Int" {
			inner := bigIntSymbolicStub(name, sig, bigVal)
			return func(in *Interp, fn *ssa.Function, a []Val) Val {
				// arbitrary-precision concrete evaluation when every operand is concrete
				if r, ok := in.bigConcreteCall(fn, name, a); ok {
					return r
				}
				if inner != nil {
					if name != "Uint64" && name != "Int64" && name != "IsUint64" && name != "IsInt64" && name != "FillBytes" {
						in.bigForget(a[0])
					}
					return inner(in, fn, a)
				}
				if sig.Results().Len() == 1 && types.Identical(sig.Results().At(0).Type(), sig.Recv().Type()) {
					// unmodelled operation on a non-concrete value: the receiver becomes opaque
					in.bigOpaque[in.bkw(a[0])] = true
					return a[0]
				}
				panic(abort("unmodelled", "big.Int."+name+" on a non-concrete value"))
			}
		}
		return nil
	}
	// ---- fft.NewDomain(m): only the size matters to gnark's bookkeeping: Cardinality is the next
	// power of two >= m (c & (c-1) == 0, c >= m, c < 2m for m >= 1); generators etc. are zero values
	if strings.HasSuffix(pkg, "/fr/fft") && rn == nil && name == "NewDomain" {
		return func(in *Interp, fn *ssa.Function, a []Val) Val {
			pt := fn.Signature.Results().At(0).Type().(*types.Pointer)
			st := pt.Elem().Underlying().(*types.Struct)
			sv := in.zero(pt.Elem()).(*StructV)
			m := a[0].(*Term)
			var c *Term
			if m.IsConst {
				v := uint64(1)
				for v < m.C {
					v <<= 1
				}
				c = BVConst(v, 64)
			} else {
				c = in.fresh("domain.Cardinality", BVSort(64))
				one, zero := BVConst(1, 64), BVConst(0, 64)
				in.assume(in.s.Eq(in.s.BVBin("bvand", c, in.s.BVBin("bvsub", c, one)), zero))
				in.assume(in.s.Not(in.s.Eq(c, zero)))
				in.assume(in.s.BVCmp("bvuge", c, m))
				in.assume(in.s.Or(in.s.BVCmp("bvult", c, in.s.BVBin("bvadd", m, m)), in.s.BVCmp("bvule", m, one)))
				in.assume(in.s.BVCmp("bvult", m, BVConst(1<<40, 64)))
			}
			for i := 0; i < st.NumFields(); i++ {
				if st.Field(i).Name() == "Cardinality" {
					sv.F[i] = c
				}
			}
			return Ptr{Obj: in.newObj(sv, "fft.Domain")}
		}
	}
	// ---- gnark-crypto/field/pool: recycled big.Int objects have ARBITRARY contents
	if pkg == "github.com/consensys/gnark-crypto/field/pool" {
		switch name {
		case "Get":
			return func(in *Interp, fn *ssa.Function, a []Val) Val {
				et := fn.Signature.Results().At(0).Type().(*types.Pointer).Elem()
				o := in.newObj(in.zero(et), "pooled big.Int")
				in.bigOpaque[in.bkw(Ptr{Obj: o})] = true
				return Ptr{Obj: o}
			}
		case "Put":
			return func(in *Interp, fn *ssa.Function, a []Val) Val { return nil }
		}
	}
	// ---- gnark-crypto/utils worker pool: jobs run one after the other, in submission order
	// (sequential schedule; the callers' contract is that jobs of one Submit are independent)
	if pkg == "github.com/consensys/gnark-crypto/utils" {
		switch name {
		case "NewWorkerPool":
			return func(in *Interp, fn *ssa.Function, a []Val) Val {
				et := fn.Signature.Results().At(0).Type().(*types.Pointer).Elem()
				return Ptr{Obj: in.newObj(in.zero(et), "workerpool")}
			}
		case "Stop":
			return func(in *Interp, fn *ssa.Function, a []Val) Val { return nil }
		case "NbWorkers":
			return func(in *Interp, fn *ssa.Function, a []Val) Val { return BVConst(1, 64) }
		case "Submit":
			return func(in *Interp, fn *ssa.Function, a []Val) Val {
				n, mb := a[1].(*Term), a[3].(*Term)
				if !n.IsConst {
					k := in.concretize(n, in.cfg.MaxIndexSplit, "WorkerPool.Submit size")
					if k < 0 {
						return Ptr{Obj: in.newObj(in.zero(fn.Signature.Results().At(0).Type().(*types.Pointer).Elem()), "waitgroup")} // n <= 0: no job
					}
					n = BVConst(uint64(k), 64)
				}
				if !mb.IsConst || mb.C == 0 {
					panic(abort("unmodelled", "WorkerPool.Submit with a symbolic block size"))
				}
				for start := int64(0); start < int64(n.C); start += int64(mb.C) {
					end := start + int64(mb.C)
					if end > int64(n.C) {
						end = int64(n.C)
					}
					in.invoke(a[2].(FuncV), []Val{BVConst(uint64(start), 64), BVConst(uint64(end), 64)})
				}
				et := fn.Signature.Results().At(0).Type().(*types.Pointer).Elem()
				return Ptr{Obj: in.newObj(in.zero(et), "waitgroup")}
			}
		}
	}
	// ---- fr/polynomial memory pool: Make hands out recycled memory, i.e. ARBITRARY contents
	if strings.HasSuffix(pkg, "/fr/polynomial") && isEccPkg(pkg) {
		switch name {
		case "NewPool":
			return func(in *Interp, fn *ssa.Function, a []Val) Val { return in.zero(fn.Signature.Results().At(0).Type()) }
		case "Make":
			return func(in *Interp, fn *ssa.Function, a []Val) Val {
				n := a[1].(*Term)
				if !n.IsConst || n.C > 1<<12 {
					panic(abort("unmodelled", "Pool.Make with a symbolic size"))
				}
				et := fn.Signature.Results().At(0).Type().(*types.Slice).Elem()
				sl := in.makeSlice(et, int(n.C), int(n.C))
				for i := 0; i < int(n.C); i++ {
					in.store(in.sliceElemPtr(sl, i), in.nondetOf(et, "pooled"))
				}
				return sl
			}
		case "Dump":
			return func(in *Interp, fn *ssa.Function, a []Val) Val { return nil }
		case "Clone":
			return func(in *Interp, fn *ssa.Function, a []Val) Val {
				src := a[1].(SliceV)
				et := fn.Signature.Results().At(0).Type().(*types.Slice).Elem()
				sl := in.makeSlice(et, src.Len, src.Len)
				for i := 0; i < src.Len; i++ {
					in.store(in.sliceElemPtr(sl, i), in.sliceGet(src, i))
				}
				return sl
			}
		}
	}
	// ---- Fiat-Shamir transcript: opaque challenges ---------------------------------------
	if pkg == "github.com/consensys/gnark-crypto/fiat-shamir" {
		switch name {
		case "NewTranscript":
			return func(in *Interp, fn *ssa.Function, a []Val) Val {
				et := fn.Signature.Results().At(0).Type().(*types.Pointer).Elem()
				return Ptr{Obj: in.newObj(in.zero(et), "transcript")}
			}
		case "Bind":
			// the transcript is a deterministic function of what was bound to it, in order
			return func(in *Interp, fn *ssa.Function, a []Val) Val {
				if p, ok := a[0].(Ptr); ok && p.Obj != nil {
					key := "|bind:" + fmt.Sprint(a[1]) + ":"
					if sl, ok := a[2].(SliceV); ok {
						for i := 0; i < sl.Len; i++ {
							key += valKey(in.sliceGet(sl, i)) + ","
						}
					}
					in.transcripts[p.Obj] += key
				}
				return IfaceV{}
			}
		case "ComputeChallenge":
			return func(in *Interp, fn *ssa.Function, a []Val) Val {
				key := "?"
				if p, ok := a[0].(Ptr); ok && p.Obj != nil {
					in.transcripts[p.Obj] += "|challenge:" + fmt.Sprint(a[1])
					key = in.transcripts[p.Obj]
				}
				return TupleV{in.bytesSlice(in.memoBytes(key, 32, "challenge")), IfaceV{}}
			}
		}
	}
	// ---- vectors of field elements: abstract codec contract ---------------------------
	if rn != nil && rn.Obj().Name() == "Vector" && (isEccPkg(pkg) || isFieldPkg(pkg)) {
		switch name {
		case "ReadFrom", "UnmarshalBinary", "AsyncReadFrom":
			return func(in *Interp, fn *ssa.Function, a []Val) Val {
				// an untrusted payload decodes to a vector of arbitrary length (0..3 here) or to an error
				vt := rn.Underlying().(*types.Slice)
				n := in.ex.DecideFree(in, 4, "decoded-vector-len")
				sl := in.makeSlice(vt.Elem(), n, n)
				for i := 0; i < n; i++ {
					in.store(in.sliceElemPtr(sl, i), in.nondetOf(vt.Elem(), "decoded"))
				}
				in.store(a[0].(Ptr), sl)
				res := fn.Signature.Results()
				if in.cfg.CodecConsumes && name == "ReadFrom" {
					// the codec's framing: a 4-byte length and n elements of fixed size, read from the caller's reader
					// with io.ReadFull semantics; a short stream is an error; the count returned is what was consumed
					want := 4 + n*elemByteSize(vt.Elem())
					got := in.ioMove(a[1], "Read", want)
					if got < want {
						return TupleV{BVConst(uint64(got), 64), in.newError("unexpected EOF")}
					}
					return TupleV{BVConst(uint64(got), 64), in.errOrNil("Vector." + name)}
				}
				if res.Len() == 2 {
					return TupleV{in.fresh("bytesRead", BVSort(64)), in.errOrNil("Vector." + name)}
				}
				return in.errOrNil("Vector." + name)
			}
		case "WriteTo", "MarshalBinary":
			return func(in *Interp, fn *ssa.Function, a []Val) Val {
				if name == "WriteTo" && in.cfg.CodecConsumes {
					sl, isSl := a[0].(SliceV)
					if !isSl {
						sl, _ = in.load(a[0].(Ptr)).(SliceV)
					}
					want := 4 + sl.Len*elemByteSize(rn.Underlying().(*types.Slice).Elem())
					got := in.ioMove(a[1], "Write", want)
					if got < want {
						return TupleV{BVConst(uint64(got), 64), in.newError("short write")}
					}
					return TupleV{BVConst(uint64(got), 64), IfaceV{}}
				}
				if name == "WriteTo" {
					return TupleV{in.fresh("bytesWritten", BVSort(64)), in.errOrNil("Vector.WriteTo")}
				}
				return TupleV{in.freshBytes(4, "vecbytes"), in.errOrNil("Vector." + name)}
			}
		}
	}
	// ---- integer compression (third-party intcomp behind internal/backend/ioutils): abstract
	// lossless, self-delimiting codec - the encoder leaves a one-byte handle in the stream, the
	// decoder returns the recorded list
	if pkg == "github.com/consensys/gnark/internal/backend/ioutils" && rn == nil {
		writeHandle := func(in *Interp, w Val, id int) {
			iv := w.(IfaceV)
			if iv.T == nil {
				in.progPanic("nil writer")
			}
			ms := in.prog.MethodSets.MethodSet(iv.T)
			var sel *types.Selection
			for i := 0; i < ms.Len(); i++ {
				if ms.At(i).Obj().Name() == "Write" {
					sel = ms.At(i)
				}
			}
			if sel == nil {
				panic(abort("unmodelled", "writer without Write"))
			}
			b := in.makeSlice(types.Typ[types.Uint8], 1, 1)
			b.Obj.V.(*ArrayV).E[0] = BVConst(uint64(id), 8)
			in.call(FuncV{Fn: in.prog.MethodValue(sel)}, []Val{iv.V, b}, nil)
		}
		record := func(in *Interp, sl SliceV) int {
			vals := make([]Val, sl.Len)
			for i := range vals {
				vals[i] = in.sliceGet(sl, i)
			}
			in.codecStore = append(in.codecStore, vals)
			return len(in.codecStore) - 1
		}
		fetch := func(in *Interp, src SliceV, et types.Type) SliceV {
			if src.Len == 0 {
				in.progPanic("index out of range [0] with length 0 (decompress on empty input)")
			}
			h := in.sliceGet(src, 0).(*Term)
			if !h.IsConst || int(h.C) >= len(in.codecStore) {
				panic(abort("unmodelled", "abstract integer codec: decoding bytes that no encoder call produced"))
			}
			vals := in.codecStore[h.C]
			out := in.makeSlice(et, len(vals), len(vals))
			for i, v := range vals {
				out.Obj.V.(*ArrayV).E[i] = v
			}
			return out
		}
		switch name {
		case "CompressAndWriteUints32":
			return func(in *Interp, fn *ssa.Function, a []Val) Val {
				writeHandle(in, a[0], record(in, a[1].(SliceV)))
				return TupleV{a[2], IfaceV{}}
			}
		case "CompressAndWriteUints64":
			return func(in *Interp, fn *ssa.Function, a []Val) Val {
				writeHandle(in, a[0], record(in, a[1].(SliceV)))
				return IfaceV{}
			}
		case "ReadAndDecompressUints32":
			return func(in *Interp, fn *ssa.Function, a []Val) Val {
				return TupleV{a[1], BVConst(1, 64), fetch(in, a[0].(SliceV), types.Typ[types.Uint32]), IfaceV{}}
			}
		case "ReadAndDecompressUints64":
			return func(in *Interp, fn *ssa.Function, a []Val) Val {
				return TupleV{BVConst(1, 64), fetch(in, a[0].(SliceV), types.Typ[types.Uint64]), IfaceV{}}
			}
		}
	}
	if pkg == "bytes" && name == "Equal" && rn == nil {
		return func(in *Interp, fn *ssa.Function, a []Val) Val {
			x, y := a[0].(SliceV), a[1].(SliceV)
			if x.Len != y.Len {
				return BoolConst(false)
			}
			conj := []*Term{}
			for i := 0; i < x.Len; i++ {
				conj = append(conj, in.s.Eq(in.sliceGet(x, i).(*Term), in.sliceGet(y, i).(*Term)))
			}
			return in.s.And(conj...)
		}
	}
	if !isEccPkg(pkg) && !isFieldPkg(pkg) {
		return nil
	}
	// ---- MPC ceremony utilities: recorded predicate atoms -------------------------------
	if strings.HasSuffix(pkg, "/mpcsetup") {
		switch name {
		case "Verify":
			return func(in *Interp, fn *ssa.Function, a []Val) Val {
				args := []Val{a[0], a[1], a[2]}
				reps := a[3].(SliceV)
				for i := 0; i < reps.Len; i++ {
					vu := in.sliceGet(reps, i).(*StructV)
					args = append(args, vu.F[0], vu.F[1])
				}
				res := in.errOrNil("UpdateProof.Verify")
				in.atoms = append(in.atoms, Atom{Name: "UpdateProof.Verify", Vals: args, OK: res.(IfaceV).T == nil})
				return res
			}
		case "SameRatioMany":
			return func(in *Interp, fn *ssa.Function, a []Val) Val {
				var args []Val
				sl := a[0].(SliceV)
				for i := 0; i < sl.Len; i++ {
					args = append(args, in.sliceGet(sl, i))
				}
				res := in.errOrNil("SameRatioMany")
				in.atoms = append(in.atoms, Atom{Name: "SameRatioMany", Vals: args, OK: res.(IfaceV).T == nil})
				return res
			}
		case "BeaconContributions":
			return func(in *Interp, fn *ssa.Function, a []Val) Val {
				cnt := in.needInt(a[3].(*Term), "beacon count")
				et := fn.Signature.Results().At(0).Type().Underlying().(*types.Slice).Elem()
				sl := in.makeSlice(et, cnt, cnt)
				for i := 0; i < cnt; i++ {
					in.store(in.sliceElemPtr(sl, i), in.nondetOf(et, "beacon"))
				}
				in.atoms = append(in.atoms, Atom{Name: "BeaconContributions", Vals: []Val{a[0], a[1], a[2]}, OK: true})
				return sl
			}
		}
	}
	if rn == nil && name == "Generators" {
		return func(in *Interp, fn *ssa.Function, a []Val) Val {
			res := fn.Signature.Results()
			tv := make(TupleV, res.Len())
			for i := range tv {
				tv[i] = in.nondetOf(res.At(i).Type(), "generator")
			}
			return tv
		}
	}
	// ---- KZG: folding and batched verification (length contracts from gnark-crypto) -------
	if strings.HasSuffix(pkg, "/kzg") && rn == nil {
		switch name {
		case "FoldProof":
			return func(in *Interp, fn *ssa.Function, a []Val) Val {
				digests := a[0].(SliceV)
				bp := in.load(a[1].(Ptr)).(*StructV)
				res := fn.Signature.Results()
				var nClaimed int
				for _, f := range bp.F {
					if sl, ok := f.(SliceV); ok {
						nClaimed = sl.Len
					}
				}
				if digests.Len != nClaimed {
					return TupleV{in.zero(res.At(0).Type()), in.zero(res.At(1).Type()), in.newError("number of digests is not the same as the number of polynomials")}
				}
				return TupleV{in.nondetOf(res.At(0).Type(), "foldedProof"), in.nondetOf(res.At(1).Type(), "foldedDigest"), in.errOrNil("kzg.FoldProof")}
			}
		case "BatchVerifyMultiPoints":
			return func(in *Interp, fn *ssa.Function, a []Val) Val {
				d, p, pt := a[0].(SliceV), a[1].(SliceV), a[2].(SliceV)
				if d.Len != p.Len || d.Len != pt.Len {
					return in.newError("number of digests is not the same as the number of polynomials")
				}
				if d.Len == 0 {
					return in.newError("no digests")
				}
				return in.errOrNil("kzg.BatchVerifyMultiPoints")
			}
		case "Verify", "BatchVerifySinglePoint":
			return func(in *Interp, fn *ssa.Function, a []Val) Val { return in.errOrNil("kzg." + name) }
		}
	}
	if strings.HasSuffix(pkg, "/fr") && rn == nil && name == "BatchInvert" {
		return func(in *Interp, fn *ssa.Function, a []Val) Val {
			src := a[0].(SliceV)
			et := fn.Signature.Results().At(0).Type().Underlying().(*types.Slice).Elem()
			out := in.makeSlice(et, src.Len, src.Len)
			for i := 0; i < src.Len; i++ {
				x := in.frRead(in.sliceElemPtr(src, i))
				in.frWrite(in.sliceElemPtr(out, i), in.cfg.Field.Inv(in, x))
			}
			return out
		}
	}
	// fr.BigEndian.Element / fr.LittleEndian.Element: decoding of a canonical encoding
	if rn != nil && (rn.Obj().Name() == "bigEndian" || rn.Obj().Name() == "littleEndian") && name == "Element" && isFieldPkg(pkg) {
		return func(in *Interp, fn *ssa.Function, a []Val) Val {
			arr := in.loadRef(a[len(a)-1].(Ptr)).(*ArrayV)
			rk := "decode|"
			for _, e := range arr.E {
				rk += valKey(e) + ","
			}
			rt := fn.Signature.Results().At(0).Type()
			z := in.zero(rt).(*ArrayV)
			if ts, ok := in.memoTerms[rk]; ok && rn.Obj().Name() == "bigEndian" {
				return TupleV{in.frValue(rt, ts[0]), IfaceV{}}
			}
			// arbitrary bytes: some value (a function of the bytes), or an invalid encoding
			ts, ok := in.memoTerms["decoded|"+rn.Obj().Name()+rk]
			if !ok {
				ts = []*Term{in.cfg.Field.Fresh(in, "elem.decode", wordW(z))}
				in.memoTerms["decoded|"+rn.Obj().Name()+rk] = ts
			}
			if in.ex.DecideFree(in, 2, "err:invalid element encoding") == 1 {
				return TupleV{in.zero(rt), in.newError("invalid fr.Element encoding")}
			}
			return TupleV{in.frValue(rt, ts[0]), IfaceV{}}
		}
	}
	// field element methods are handled by the field model; only byte conversions here
	if rn != nil {
		if _, isElem := fieldElemWords(rn); isElem && rn.Obj().Name() == "Element" {
			switch name {
			case "Marshal", "Bytes":
				return func(in *Interp, fn *ssa.Function, a []Val) Val {
					n, ok := pkgIntConst(in, pkg, "Bytes")
					if !ok {
						panic(abort("unmodelled", "no Bytes constant in "+pkg))
					}
					// the canonical encoding is a function of the value
					ts := in.memoBytes(in.frRead(a[0]).S, n, "elembytes")
					rk := "decode|"
					for _, t := range ts {
						rk += t.S + ","
					}
					in.memoTerms[rk] = []*Term{in.frRead(a[0])} // decoding these bytes gives the value back
					if name == "Bytes" {
						arr := &ArrayV{E: make([]Val, n)}
						for i := range arr.E {
							arr.E[i] = ts[i]
						}
						return arr
					}
					return in.bytesSlice(ts)
				}
			case "SetBytes", "SetBytesCanonical", "SetBigInt", "SetString", "SetInterface", "Exp", "Sqrt", "Halve", "BigInt":
				return func(in *Interp, fn *ssa.Function, a []Val) Val {
					if name == "BigInt" {
						// the big.Int now carries this field value (read back by SetBigInt)
						if bp, ok := a[1].(Ptr); ok && bp.Obj != nil {
							in.bigField[in.bkw(bp)] = in.frRead(a[0])
						}
						return a[1]
					}
					if name == "Exp" {
						// x^k for a small constant exponent: repeated multiplication; otherwise opaque
						if bp, ok := a[2].(Ptr); ok && bp.Obj != nil {
							if k, ok := in.bigVals[in.bk(bp)]; ok && in.bk(bp) != nil && k.IsConst && k.C <= 64 {
								w := wordW(in.frArr(a[0]))
								x := in.frRead(a[1])
								r := in.cfg.Field.Const(1, w)
								for i := uint64(0); i < k.C; i++ {
									r = in.cfg.Field.Mul(in, r, x)
								}
								in.frWrite(a[0].(Ptr), r)
								return a[0]
							}
						}
					}
					if name == "SetBytes" || name == "SetBytesCanonical" {
						// a function of the byte string (length and contents)
						if sl, ok := a[1].(SliceV); ok {
							key := ""
							for i := 0; i < sl.Len; i++ {
								key += valKey(in.sliceGet(sl, i)) + ","
							}
							k := "SetBytes|" + key
							ts, ok := in.memoTerms[k]
							if !ok {
								ts = []*Term{in.cfg.Field.Fresh(in, "elem.SetBytes", wordW(in.frArr(a[0])))}
								in.memoTerms[k] = ts
							}
							in.frWrite(a[0].(Ptr), ts[0])
							if fn.Signature.Results().Len() == 2 {
								return TupleV{a[0], in.errOrNil("Element." + name)}
							}
							return a[0]
						}
					}
					if name == "SetBigInt" {
						if bp, ok := a[1].(Ptr); ok && bp.Obj != nil {
							var t *Term
							ok := false
							if k := in.bk(bp); k != nil {
								t, ok = in.bigField[k]
							}
							if !ok {
								// a concrete small integer is that field constant (in the algebra model; the word
								// models reduce modulo their prime)
								if c, okc := in.bigConcOf(in.bk(bp)); okc && c.IsInt64() && in.cfg.Field.Name() == "algebra (reals)" {
									in.frWrite(a[0].(Ptr), in.cfg.Field.Const(c.Int64(), wordW(in.frArr(a[0]))))
									return a[0]
								}
							}
							if !ok {
								t = in.cfg.Field.Fresh(in, "elem.SetBigInt", wordW(in.frArr(a[0])))
								k := in.bk(bp)
								if k == nil {
									k = in.bkw(bp)
								}
								if _, small := in.bigVals[k]; !small {
									in.bigField[k] = t
								}
							}
							in.frWrite(a[0].(Ptr), t)
							return a[0]
						}
					}
					in.frWrite(a[0].(Ptr), in.cfg.Field.Fresh(in, "elem."+name, wordW(in.frArr(a[0]))))
					res := fn.Signature.Results()
					if res.Len() == 2 {
						return TupleV{a[0], in.errOrNil("Element." + name)}
					}
					return a[0]
				}
			}
			return nil
		}
	}
	// ---- package level functions with bookkeeping contracts -----------------------
	if rn == nil {
		switch name {
		case "MillerLoop", "Pair", "PairingCheck", "MillerLoopFixedQ", "PairFixedQ", "PairingCheckFixedQ":
			return func(in *Interp, fn *ssa.Function, a []Val) Val {
				p, q := a[0].(SliceV), a[1].(SliceV)
				res := fn.Signature.Results()
				r0 := in.nondetOf(res.At(0).Type(), name)
				if p.Len == 0 || p.Len != q.Len {
					return TupleV{in.zero(res.At(0).Type()), in.newError("invalid inputs sizes")}
				}
				return TupleV{r0, in.errOrNil(name)}
			}
		case "FinalExponentiation":
			return func(in *Interp, fn *ssa.Function, a []Val) Val {
				return in.nondetOf(fn.Signature.Results().At(0).Type(), name)
			}
		case "Hash":
			if strings.HasSuffix(pkg, "/fr") {
				return func(in *Interp, fn *ssa.Function, a []Val) Val {
					cnt := in.needInt(a[2].(*Term), "Hash count")
					et := fn.Signature.Results().At(0).Type().Underlying().(*types.Slice).Elem()
					sl := in.makeSlice(et, cnt, cnt)
					for i := 0; i < cnt; i++ {
						in.store(in.sliceElemPtr(sl, i), in.nondetOf(et, "hash"))
					}
					return TupleV{sl, IfaceV{}}
				}
			}
		case "BatchVerifyMultiVk":
			return func(in *Interp, fn *ssa.Function, a []Val) Val {
				vk, com, pok := a[0].(SliceV), a[1].(SliceV), a[2].(SliceV)
				if com.Len != vk.Len {
					return in.newError("commitments length mismatch")
				}
				if vk.Len != pok.Len && pok.Len != 1 {
					return in.newError("pok length mismatch")
				}
				if com.Len == 0 {
					in.progPanic("index out of range [0] with length 0 (pedersen.BatchVerifyMultiVk reads commitments[0])")
				}
				return in.errOrNil("pedersen.BatchVerifyMultiVk")
			}
		case "One", "Modulus", "NewElement", "Generator":
			if name == "One" && strings.HasSuffix(pkg, "/fr") {
				return func(in *Interp, fn *ssa.Function, a []Val) Val {
					rt := fn.Signature.Results().At(0).Type()
					z := in.zero(rt).(*ArrayV)
					return in.frValue(rt, in.cfg.Field.Const(1, wordW(z)))
				}
			}
		}
	}
	// ---- group element methods ----------------------------------------------------
	if rn != nil {
		tn := rn.Obj().Name()
		isGroup := tn == "G1Affine" || tn == "G2Affine" || tn == "G1Jac" || tn == "G2Jac" || tn == "G1Proj" || tn == "G2Proj" || tn == "g1JacExtended" || tn == "g2JacExtended"
		isGT := strings.HasPrefix(tn, "E") && len(tn) <= 3 // E2, E6, E12, E24 ... (GT is an alias)
		if isGroup || isGT {
			switch name {
			case "IsInSubGroup", "IsOnCurve", "IsInfinity", "Equal", "IsZero", "IsOne":
				return func(in *Interp, fn *ssa.Function, a []Val) Val { return in.fresh(tn+"."+name, BoolSort) }
			case "Marshal", "Bytes", "RawBytes":
				return func(in *Interp, fn *ssa.Function, a []Val) Val {
					cn := "SizeOf" + tn + "Uncompressed"
					if name == "Bytes" {
						cn = "SizeOf" + tn + "Compressed"
					}
					n, ok := pkgIntConst(in, pkg, cn)
					if !ok {
						panic(abort("unmodelled", "no size constant "+cn+" in "+pkg))
					}
					ts := in.memoBytes(valKey(in.load(a[0].(Ptr))), n, "pointbytes."+name)
					if name == "Marshal" {
						return in.bytesSlice(ts)
					}
					arr := &ArrayV{E: make([]Val, n)}
					for i := range arr.E {
						arr.E[i] = ts[i]
					}
					return arr
				}
			case "MultiExp":
				return func(in *Interp, fn *ssa.Function, a []Val) Val {
					pts, sc := a[1].(SliceV), a[2].(SliceV)
					if pts.Len != sc.Len {
						return TupleV{Ptr{}, in.newError("len(points) != len(scalars)")}
					}
					in.havoc(a[0].(Ptr), rn, tn+".MultiExp")
					return TupleV{a[0], in.errOrNil("MultiExp")}
				}
			case "Fold":
				return func(in *Interp, fn *ssa.Function, a []Val) Val {
					in.havoc(a[0].(Ptr), rn, tn+".Fold")
					return TupleV{a[0], in.errOrNil("Fold")}
				}
			case "String":
				return func(in *Interp, fn *ssa.Function, a []Val) Val { return "<point>" }
			}
			// any other pointer-receiver method returning the receiver: result is an arbitrary element
			sig := fn.Signature
			if _, isPtr := sig.Recv().Type().(*types.Pointer); isPtr && sig.Results().Len() == 1 && types.Identical(sig.Results().At(0).Type(), sig.Recv().Type()) {
				return func(in *Interp, fn *ssa.Function, a []Val) Val {
					in.havoc(a[0].(Ptr), rn, tn+"."+name)
					return a[0]
				}
			}
		}
	}
	return nil
}


// elemByteSize is the encoded size of a field element: its words
func elemByteSize(t types.Type) int {
	if a, ok := t.Underlying().(*types.Array); ok {
		if b, ok := a.Elem().Underlying().(*types.Basic); ok {
			if w, _, ok := intWidth(b); ok {
				return int(a.Len()) * w / 8
			}
		}
	}
	return 32
}

// ioMove moves up to n opaque bytes through the Read / Write method of an io.Reader / io.Writer value the interpreted
// program supplied (io.ReadFull semantics for Read); returns how many bytes went through
func (in *Interp) ioMove(rw Val, method string, n int) int {
	iv, ok := rw.(IfaceV)
	if !ok || iv.T == nil {
		in.progPanic("nil pointer dereference (nil reader / writer)")
	}
	ms := in.prog.MethodSets.MethodSet(iv.T)
	var sel *types.Selection
	for i := 0; i < ms.Len(); i++ {
		if ms.At(i).Obj().Name() == method {
			sel = ms.At(i)
		}
	}
	if sel == nil {
		panic(abort("unmodelled", "value without "+method))
	}
	done := 0
	for done < n {
		var b SliceV
		if method == "Write" {
			b = in.freshBytes(n-done, "encoded")
		} else {
			b = in.makeSlice(types.Typ[types.Uint8], n-done, n-done)
		}
		r := in.call(FuncV{Fn: in.prog.MethodValue(sel)}, []Val{iv.V, b}, nil).(TupleV)
		k := in.needInt(r[0].(*Term), method+" count")
		done += k
		if e, _ := r[1].(IfaceV); e.T != nil || k == 0 {
			break
		}
	}
	return done
}
