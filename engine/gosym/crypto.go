package main

// crypto.go: stub sets for group elements / pairings / transcripts (algebra model). Filled in per property.

func registerCryptoStubs(cfg *Config) {}
