package main

// value.go: the value and memory model of the symbolic interpreter.

import (
	"fmt"
	"go/types"

	"golang.org/x/tools/go/ssa"
)

type Val interface{}

// scalars are *Term (BV / Bool / Real / opaque); strings are Go strings; floats concrete float64.

type Obj struct {
	V    Val
	ID   int
	Name string
}

type Ptr struct {
	Obj  *Obj
	Path []int
	// at most one path position may be symbolic: Path[SymPos] = SymOff + SymIdx with SymIdx in [0, SymN)
	SymIdx *Term
	SymPos int
	SymN   int
	SymOff int
}

func (p Ptr) IsNil() bool { return p.Obj == nil }

type StructV struct{ F []Val }
type ArrayV struct{ E []Val }

type SliceV struct {
	Obj           *Obj // backing array object (V is *ArrayV); nil for the nil slice
	Off, Len, Cap int
}

type IfaceV struct {
	T types.Type // dynamic type; nil for the nil interface
	V Val
}

type FuncV struct {
	Fn      *ssa.Function
	Env     []Val
	Builtin *ssa.Builtin
	Recv    Val // bound method receiver (for method values) when HasRecv
	HasRecv bool
}

type mapEntry struct {
	K, V Val
}

type MapObj struct {
	Entries []mapEntry
	KT, VT  types.Type
	ID      int
}

type MapV struct{ M *MapObj } // M == nil: nil map

type ChanObj struct {
	Queue   []Val
	Closed  bool
	Cap     int           // scheduled mode only (the sequential model treats channels as unbounded FIFOs)
	Waiting []waitingSend // senders blocked on a full / unbuffered channel (scheduled mode)
}
type ChanV struct{ C *ChanObj }

type TupleV []Val

// rangeIter is the state of a `range` over a map or string
type rangeIter struct {
	m      *MapObj
	remain []int // indices (into snap) of entries not yet visited
	snap   []mapEntry
	str    string
	pos    int
	isStr  bool
}

func deepCopy(v Val) Val {
	switch x := v.(type) {
	case *StructV:
		n := &StructV{F: make([]Val, len(x.F))}
		for i, f := range x.F {
			n.F[i] = deepCopy(f)
		}
		return n
	case *ArrayV:
		n := &ArrayV{E: make([]Val, len(x.E))}
		for i, f := range x.E {
			n.E[i] = deepCopy(f)
		}
		return n
	}
	return v
}

func intWidth(t *types.Basic) (w int, signed bool, ok bool) {
	switch t.Kind() {
	case types.Int8:
		return 8, true, true
	case types.Int16:
		return 16, true, true
	case types.Int32, types.UntypedRune:
		return 32, true, true
	case types.Int64, types.Int, types.UntypedInt:
		return 64, true, true
	case types.Uint8:
		return 8, false, true
	case types.Uint16:
		return 16, false, true
	case types.Uint32:
		return 32, false, true
	case types.Uint64, types.Uint, types.Uintptr:
		return 64, false, true
	}
	return 0, false, false
}

func (in *Interp) zero(t types.Type) Val {
	switch u := t.Underlying().(type) {
	case *types.Basic:
		if w, _, ok := intWidth(u); ok {
			return BVConst(0, w)
		}
		switch u.Kind() {
		case types.Bool, types.UntypedBool:
			return BoolConst(false)
		case types.String, types.UntypedString:
			return ""
		case types.Float32, types.Float64, types.UntypedFloat:
			return float64(0)
		case types.UnsafePointer:
			return Ptr{}
		case types.UntypedNil:
			return nil
		}
		panic(abort("unmodelled", "zero value of basic type "+u.String()))
	case *types.Pointer:
		return Ptr{}
	case *types.Slice:
		return SliceV{}
	case *types.Map:
		return MapV{}
	case *types.Chan:
		return ChanV{}
	case *types.Interface:
		return IfaceV{}
	case *types.Signature:
		return FuncV{}
	case *types.Struct:
		s := &StructV{F: make([]Val, u.NumFields())}
		for i := 0; i < u.NumFields(); i++ {
			s.F[i] = in.zero(u.Field(i).Type())
		}
		return s
	case *types.Array:
		a := &ArrayV{E: make([]Val, u.Len())}
		if u.Len() > 1<<16 {
			panic(abort("unmodelled", "huge array"))
		}
		for i := range a.E {
			a.E[i] = in.zero(u.Elem())
		}
		return a
	case *types.Tuple:
		tv := make(TupleV, u.Len())
		for i := range tv {
			tv[i] = in.zero(u.At(i).Type())
		}
		return tv
	}
	panic(abort("unmodelled", fmt.Sprintf("zero value of %s (%T)", t, t.Underlying())))
}

func (in *Interp) newObj(v Val, name string) *Obj {
	in.nObj++
	return &Obj{V: v, ID: in.nObj, Name: name}
}

// slot navigation ------------------------------------------------------------

func child(v Val, i int) Val {
	switch x := v.(type) {
	case *StructV:
		return x.F[i]
	case *ArrayV:
		if i < 0 || i >= len(x.E) {
			panic(abort("internal", fmt.Sprintf("array child index %d out of %d", i, len(x.E))))
		}
		return x.E[i]
	}
	panic(abort("internal", fmt.Sprintf("child of non-aggregate %T", v)))
}

func setChild(v Val, i int, nv Val) {
	switch x := v.(type) {
	case *StructV:
		x.F[i] = nv
		return
	case *ArrayV:
		x.E[i] = nv
		return
	}
	panic(abort("internal", fmt.Sprintf("setChild of non-aggregate %T", v)))
}

// concrete instantiates the symbolic position of p with k
func (p Ptr) concrete(k int) Ptr {
	np := make([]int, len(p.Path))
	copy(np, p.Path)
	np[p.SymPos] = p.SymOff + k
	return Ptr{Obj: p.Obj, Path: np}
}

// mergeVal builds ite(c, a, b) over values of the same shape
func (in *Interp) mergeVal(c *Term, a, b Val) Val {
	switch x := a.(type) {
	case *Term:
		y, ok := b.(*Term)
		if !ok {
			break
		}
		if x.Sort.String() != y.Sort.String() {
			if x.Sort.K == SReal || y.Sort.K == SReal {
				x, y = in.coerceReal(x), in.coerceReal(y)
			}
		}
		return in.s.Ite(c, x, y)
	case *StructV:
		y := b.(*StructV)
		n := &StructV{F: make([]Val, len(x.F))}
		for i := range x.F {
			n.F[i] = in.mergeVal(c, x.F[i], y.F[i])
		}
		return n
	case *ArrayV:
		y := b.(*ArrayV)
		n := &ArrayV{E: make([]Val, len(x.E))}
		for i := range x.E {
			n.E[i] = in.mergeVal(c, x.E[i], y.E[i])
		}
		return n
	case string:
		if y, ok := b.(string); ok && x == y {
			return x
		}
	case Ptr:
		if y, ok := b.(Ptr); ok && samePtr(x, y) {
			return x
		}
	case SliceV:
		if y, ok := b.(SliceV); ok && x == y {
			return x
		}
	case IfaceV:
		if y, ok := b.(IfaceV); ok && x.T == nil && y.T == nil {
			return x
		}
	case nil:
		if b == nil {
			return nil
		}
	}
	panic(abort("unmodelled", fmt.Sprintf("merging %T and %T under a symbolic index", a, b)))
}

func (in *Interp) load(p Ptr) Val {
	if p.Obj == nil {
		in.progPanic("nil pointer dereference")
	}
	if p.SymIdx != nil {
		acc := in.load(p.concrete(p.SymN - 1))
		for k := p.SymN - 2; k >= 0; k-- {
			acc = in.mergeVal(in.s.Eq(p.SymIdx, BVConst(uint64(k), p.SymIdx.Sort.W)), in.load(p.concrete(k)), acc)
		}
		return acc
	}
	v := p.Obj.V
	for _, i := range p.Path {
		v = child(v, i)
	}
	return deepCopy(v)
}

// loadRef returns the stored value without copying (for read-only navigation)
func (in *Interp) loadRef(p Ptr) Val {
	if p.Obj == nil {
		in.progPanic("nil pointer dereference")
	}
	if p.SymIdx != nil {
		return in.load(p)
	}
	v := p.Obj.V
	for _, i := range p.Path {
		v = child(v, i)
	}
	return v
}

// assignInPlace copies src into the existing aggregate dst cell by cell, so that
// slices and array-pointer views aliasing dst keep seeing the stored values.
func assignInPlace(dst, src Val) bool {
	switch d := dst.(type) {
	case *ArrayV:
		s, ok := src.(*ArrayV)
		if !ok || len(s.E) != len(d.E) {
			return false
		}
		for i := range d.E {
			if !assignInPlace(d.E[i], s.E[i]) {
				d.E[i] = deepCopy(s.E[i])
			}
		}
		return true
	case *StructV:
		s, ok := src.(*StructV)
		if !ok || len(s.F) != len(d.F) {
			return false
		}
		for i := range d.F {
			if !assignInPlace(d.F[i], s.F[i]) {
				d.F[i] = deepCopy(s.F[i])
			}
		}
		return true
	}
	return false
}

func (in *Interp) store(p Ptr, nv Val) {
	if p.Obj == nil {
		in.progPanic("nil pointer dereference")
	}
	if p.SymIdx != nil {
		for k := 0; k < p.SymN; k++ {
			cp := p.concrete(k)
			in.store(cp, in.mergeVal(in.s.Eq(p.SymIdx, BVConst(uint64(k), p.SymIdx.Sort.W)), nv, in.load(cp)))
		}
		return
	}
	if len(p.Path) == 0 {
		if !assignInPlace(p.Obj.V, nv) {
			p.Obj.V = deepCopy(nv)
		}
		return
	}
	v := p.Obj.V
	for _, i := range p.Path[:len(p.Path)-1] {
		v = child(v, i)
	}
	last := p.Path[len(p.Path)-1]
	if !assignInPlace(child(v, last), nv) {
		setChild(v, last, deepCopy(nv))
	}
}

func (p Ptr) sub(i int) Ptr {
	np := make([]int, len(p.Path)+1)
	copy(np, p.Path)
	np[len(p.Path)] = i
	return Ptr{Obj: p.Obj, Path: np, SymIdx: p.SymIdx, SymPos: p.SymPos, SymN: p.SymN, SymOff: p.SymOff}
}

// subSym extends the path by a symbolic index in [0,n) (offset off)
func (p Ptr) subSym(idx *Term, n, off int) Ptr {
	np := make([]int, len(p.Path)+1)
	copy(np, p.Path)
	np[len(p.Path)] = off
	return Ptr{Obj: p.Obj, Path: np, SymIdx: idx, SymPos: len(p.Path), SymN: n, SymOff: off}
}

func samePtr(a, b Ptr) bool {
	if a.Obj != b.Obj || len(a.Path) != len(b.Path) {
		return false
	}
	if a.SymIdx != nil || b.SymIdx != nil {
		if a.SymIdx == nil || b.SymIdx == nil || a.SymIdx.S != b.SymIdx.S || a.SymPos != b.SymPos {
			panic(abort("unmodelled", "comparison of pointers with symbolic indices"))
		}
	}
	for i := range a.Path {
		if a.Path[i] != b.Path[i] {
			return false
		}
	}
	return true
}

// slices -------------------------------------------------------------------

func (in *Interp) sliceElemPtr(s SliceV, i int) Ptr {
	return Ptr{Obj: s.Obj, Path: []int{s.Off + i}}
}

func (in *Interp) sliceGet(s SliceV, i int) Val {
	return in.load(in.sliceElemPtr(s, i))
}

func (in *Interp) makeSlice(elem types.Type, n, c int) SliceV {
	if c < n {
		c = n
	}
	if c > 1<<16 {
		panic(abort("unmodelled", fmt.Sprintf("make of %d elements", c)))
	}
	a := &ArrayV{E: make([]Val, c)}
	for i := range a.E {
		a.E[i] = in.zero(elem)
	}
	return SliceV{Obj: in.newObj(a, "make"), Off: 0, Len: n, Cap: c}
}

func describe(v Val) string {
	switch x := v.(type) {
	case *Term:
		return x.S
	case string:
		return fmt.Sprintf("%q", x)
	case Ptr:
		if x.Obj == nil {
			return "nil"
		}
		return fmt.Sprintf("&obj%d%v", x.Obj.ID, x.Path)
	case *StructV:
		s := "{"
		for i, f := range x.F {
			if i > 0 {
				s += ", "
			}
			s += describe(f)
		}
		return s + "}"
	case *ArrayV:
		s := "["
		for i, f := range x.E {
			if i > 0 {
				s += ", "
			}
			if i > 8 {
				s += "..."
				break
			}
			s += describe(f)
		}
		return s + "]"
	case SliceV:
		return fmt.Sprintf("slice(len=%d,cap=%d)", x.Len, x.Cap)
	case IfaceV:
		if x.T == nil {
			return "nil-iface"
		}
		return fmt.Sprintf("iface(%s:%s)", x.T, describe(x.V))
	}
	return fmt.Sprintf("%T", v)
}
