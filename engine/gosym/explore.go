package main

// explore.go: depth-first exploration of all feasible paths by re-execution
// under a recorded prefix of decisions.

import "fmt"

type decision struct {
	alts []int
	idx  int
	what string
}

type Explorer struct {
	stack   []decision
	pos     int
	Unknown int // feasibility queries answered unknown (branch kept)
	Forks   int
}

func (e *Explorer) Decide(in *Interp, guards []*Term, what string) int {
	if e.pos < len(e.stack) {
		d := e.stack[e.pos]
		e.pos++
		return d.alts[d.idx]
	}
	var alts []int
	var open []int
	for k, g := range guards {
		if g.IsConst {
			if g.C == 1 {
				alts = append(alts, k)
			}
			continue
		}
		open = append(open, k)
	}
	for n, k := range open {
		// the last open guard is feasible without a query when nothing else is (the path condition is feasible)
		if n == len(open)-1 && len(alts) == 0 {
			alts = append(alts, k)
			break
		}
		r, _ := in.s.CheckPC(in.pc, []*Term{guards[k]}, nil)
		switch r {
		case RSat:
			alts = append(alts, k)
		case RUnknown:
			e.Unknown++
			alts = append(alts, k)
		}
	}
	if len(alts) == 0 {
		panic(abort("assume", "no feasible alternative at "+what))
	}
	if len(alts) > 1 {
		e.Forks++
	}
	e.stack = append(e.stack, decision{alts: alts, what: what})
	e.pos++
	return alts[0]
}

// DecideFree is an n-way choice that needs no feasibility query (schedules, iteration orders).
func (e *Explorer) DecideFree(in *Interp, n int, what string) int {
	if e.pos < len(e.stack) {
		d := e.stack[e.pos]
		e.pos++
		return d.alts[d.idx]
	}
	if n <= 0 {
		panic(abort("internal", "free choice among 0 alternatives at "+what))
	}
	alts := make([]int, n)
	for i := range alts {
		alts[i] = i
	}
	if n > 1 {
		e.Forks++
	}
	e.stack = append(e.stack, decision{alts: alts, what: what})
	e.pos++
	return 0
}

// Next moves to the next unexplored path; false when the space is exhausted.
func (e *Explorer) Next() bool {
	for len(e.stack) > 0 {
		top := &e.stack[len(e.stack)-1]
		if top.idx+1 < len(top.alts) {
			top.idx++
			e.pos = 0
			return true
		}
		e.stack = e.stack[:len(e.stack)-1]
	}
	return false
}

func (e *Explorer) Trace() []int {
	t := make([]int, len(e.stack))
	for i, d := range e.stack {
		t[i] = d.alts[d.idx]
	}
	return t
}

func (e *Explorer) TraceString() string {
	s := ""
	for _, d := range e.stack {
		s += fmt.Sprintf("%s=%d ", d.what, d.alts[d.idx])
	}
	return s
}

// Chooses returns the results of the verifChoose calls of the current path, in call order
func (e *Explorer) Chooses() []int {
	var c []int
	for _, d := range e.stack[:e.pos] {
		if d.what == "choose" {
			c = append(c, d.alts[d.idx])
		}
	}
	return c
}
