package main

// stubs.go: intrinsics of the harness idiom and the stub registry
// (field elements in the algebra model, inert environment, sync/atomic).

import (
	"math"
	"fmt"
	"go/types"
	"math/big"
	"strings"

	"golang.org/x/tools/go/ssa"
)

type StubFn func(in *Interp, fn *ssa.Function, args []Val) Val

// ReflectV stands for a reflect.Value built by reflect.ValueOf (only Len is modelled)
type ReflectV struct{ V IfaceV }

// ---------------------------------------------------------------------------
// intrinsics

func (in *Interp) intrinsic(fn *ssa.Function, args []Val) (Val, bool) {
	name := fn.Name()
	switch {
	case name == "verifAssume":
		c := args[0].(*Term)
		if c.IsConst {
			if c.C == 0 {
				panic(abort("assume", "assumption false"))
			}
			return nil, true
		}
		r, _ := in.s.CheckPC(in.pc, []*Term{c}, nil)
		if r == RUnsat {
			panic(abort("assume", "assumption infeasible"))
		}
		in.assume(c)
		return nil, true
	case name == "verifAssert":
		in.assertTrue(args[0].(*Term), fmt.Sprint(args[1]))
		return nil, true
	case name == "verifReach":
		in.reach[fmt.Sprint(args[0])] = true
		return nil, true
	case name == "verifChoose":
		n := in.needInt(args[0].(*Term), "verifChoose")
		return BVConst(uint64(in.ex.DecideFree(in, n, "choose")), 64), true
	case strings.HasPrefix(name, "verifNondet"):
		nm := name
		if len(args) > 0 {
			if s, ok := args[0].(string); ok {
				nm = s
			}
		}
		res := fn.Signature.Results()
		if res.Len() != 1 {
			panic(abort("internal", "verifNondet* must return one value"))
		}
		return in.nondetOf(res.At(0).Type(), nm), true
	case name == "verifNote":
		return nil, true
	case name == "verifAtomCount":
		return BVConst(uint64(len(in.atoms)), 64), true
	case name == "verifAtomIs":
		i := in.needInt(args[0].(*Term), "atom index")
		if i < 0 || i >= len(in.atoms) {
			return BoolConst(false), true
		}
		return BoolConst(in.atoms[i].Name == fmt.Sprint(args[1]) && in.atoms[i].OK), true
	case name == "verifAtomNArgs":
		i := in.needInt(args[0].(*Term), "atom index")
		if i < 0 || i >= len(in.atoms) {
			return BVConst(0, 64), true
		}
		return BVConst(uint64(len(in.atoms[i].Vals)), 64), true
	case name == "verifAtomArg":
		i := in.needInt(args[0].(*Term), "atom index")
		k := in.needInt(args[1].(*Term), "atom arg index")
		if i < 0 || i >= len(in.atoms) || k < 0 || k >= len(in.atoms[i].Vals) {
			return BoolConst(false), true
		}
		rec, want := in.atoms[i].Vals[k], args[2]
		// byte slices are compared by content (terms), everything else by reference / syntactic value
		if rs, ok := rec.(SliceV); ok {
			if wi, ok2 := want.(IfaceV); ok2 {
				if ws, ok3 := wi.V.(SliceV); ok3 && rs != ws && rs.Len == ws.Len && rs.Len > 0 {
					if _, isT := in.sliceGet(rs, 0).(*Term); isT {
						conj := []*Term{}
						for j := 0; j < rs.Len; j++ {
							conj = append(conj, in.valEq(in.sliceGet(rs, j), in.sliceGet(ws, j)))
						}
						return in.s.And(conj...), true
					}
				}
			}
		}
		if rt, ok := rec.(*Term); ok {
			if wi, ok2 := want.(IfaceV); ok2 {
				if wt, ok3 := wi.V.(*Term); ok3 && rt.Sort.String() == wt.Sort.String() {
					return in.s.Eq(rt, wt), true
				}
			}
		}
		return BoolConst(sameRef(rec, want)), true
	case name == "verifAssertCanBe":
		// existential obligation: the condition must be satisfiable on this path (e.g. "this
		// coefficient can be non-zero"); unsat is reported as a failed assertion with a model of the path
		c := args[0].(*Term)
		in.asserts++
		ok := false
		if c.IsConst {
			ok = c.C == 1
		} else {
			r, _ := in.s.CheckPC(in.pc, []*Term{c}, nil)
			if r == RUnknown {
				in.failures = append(in.failures, Failure{Msg: fmt.Sprint(args[1]), Path: in.ex.Trace(), Kind: "assert", Status: "unknown", Chooses: in.ex.Chooses()})
				return nil, true
			}
			ok = r == RSat
		}
		if !ok {
			var want []*Term
			for _, n := range in.nondets {
				want = append(want, n.T)
			}
			_, vals := in.s.CheckPC(in.pc, nil, want)
			m := map[string]string{}
			for i, n := range in.nondets {
				if i < len(vals) {
					m[n.Name] = modelValue(vals[i])
				}
			}
			in.failures = append(in.failures, Failure{Msg: fmt.Sprint(args[1]), Model: m, Path: in.ex.Trace(), Kind: "assert", Status: "sat", Chooses: in.ex.Chooses()})
		}
		return nil, true
	case name == "verifCanBe":
		// existential side condition: records the label iff the condition is satisfiable on this path
		c := args[0].(*Term)
		if c.IsConst {
			if c.C == 1 {
				in.reach[fmt.Sprint(args[1])] = true
			}
			return nil, true
		}
		if r, _ := in.s.CheckPC(in.pc, []*Term{c}, nil); r == RSat {
			in.reach[fmt.Sprint(args[1])] = true
		}
		return nil, true
	case name == "verifFAdd", name == "verifFSub", name == "verifFMul":
		F := in.cfg.Field
		x, y := in.frRead(args[0]), in.frRead(args[1])
		var r *Term
		switch name {
		case "verifFAdd":
			r = F.Add(in, x, y)
		case "verifFSub":
			r = F.Sub(in, x, y)
		default:
			r = F.Mul(in, x, y)
		}
		return in.frValue(fn.Signature.Results().At(0).Type(), r), true
	case name == "verifFNeg":
		x := in.frRead(args[0])
		return in.frValue(fn.Signature.Results().At(0).Type(), in.cfg.Field.Sub(in, in.frConst(args[0], 0), x)), true
	case name == "verifFInv":
		x := in.frRead(args[0])
		return in.frValue(fn.Signature.Results().At(0).Type(), in.cfg.Field.Inv(in, x)), true
	case name == "verifFConst":
		t := args[0].(*Term)
		if !t.IsConst {
			panic(abort("unmodelled", "verifFConst of a symbolic integer"))
		}
		rt := fn.Signature.Results().At(0).Type()
		z := in.zero(rt).(*ArrayV)
		return in.frValue(rt, in.cfg.Field.Const(sext(t.C, t.Sort.W), wordW(z))), true
	case name == "verifDlog":
		// discrete logarithm of a group element (algebra model), as a field element value
		arg := args[0]
		if iv, ok := arg.(IfaceV); ok {
			arg = iv.V
		}
		return in.frValue(fn.Signature.Results().At(0).Type(), in.dlog(arg)), true
	case name == "verifFIsIntBelow":
		// the field value is (the image of) an integer in [0, n): algebra model -> is_int and bounds
		x := in.frRead(args[0])
		n := args[1].(*Term)
		if !n.IsConst {
			panic(abort("unmodelled", "verifFIsIntBelow with a symbolic bound"))
		}
		if x.Sort.K == SReal {
			if x.IsConst {
				ok := x.Q.IsInt() && x.Q.Sign() >= 0 && x.Q.Num().Cmp(new(big.Int).SetUint64(n.C)) < 0
				return BoolConst(ok), true
			}
			return in.s.And(in.s.app(BoolSort, "is_int", x), in.s.app(BoolSort, "<=", RealInt(0), x), in.s.app(BoolSort, "<", x, RealConst(new(big.Rat).SetInt(new(big.Int).SetUint64(n.C))))), true
		}
		return in.s.BVCmp("bvult", x, BVConst(n.C, x.Sort.W)), true
	case name == "verifFToU64":
		x := in.frRead(args[0])
		if _, ok := in.cfg.Field.(gfpModel); ok {
			return TupleV{in.s.Resize(x, 64, false), BoolConst(true)}, true
		}
		return TupleV{in.s.UF("fieldToU64", BVSort(64), x), in.s.UF("fieldIsU64", BoolSort, x)}, true
	case name == "verifFEq":
		return in.cfg.Field.Eq(in, in.frRead(args[0]), in.frRead(args[1])), true
	case name == "verifFIsZero":
		return in.cfg.Field.Eq(in, in.frRead(args[0]), in.frConst(args[0], 0)), true
	case name == "verifAnd":
		return in.s.And(args[0].(*Term), args[1].(*Term)), true
	case name == "verifOr":
		return in.s.Or(args[0].(*Term), args[1].(*Term)), true
	case name == "verifImplies":
		return in.s.Implies(args[0].(*Term), args[1].(*Term)), true
	case name == "verifB2I":
		return in.s.Ite(args[0].(*Term), BVConst(1, 64), BVConst(0, 64)), true
	case name == "verifIteInt", name == "verifIteU32":
		return in.s.Ite(args[0].(*Term), args[1].(*Term), args[2].(*Term)), true
	}
	return nil, false
}

func (in *Interp) assertTrue(c *Term, msg string) {
	in.asserts++
	if c.IsConst && c.C == 1 {
		return
	}
	var want []*Term
	for _, n := range in.nondets {
		want = append(want, n.T)
	}
	var r CheckResult
	var vals []string
	if c.Deg > maxSolverDegree {
		// an identity of astronomically high degree that does not hold syntactically: the solver would expand
		// it without bound; it is undecided here (the checks may still falsify it natively with concrete values)
		r = RUnknown
	} else {
		r, vals = in.s.CheckPC(in.pc, []*Term{in.s.Not(c)}, want)
	}
	switch r {
	case RSat:
		m := map[string]string{}
		for i, n := range in.nondets {
			if i < len(vals) {
				m[n.Name] = modelValue(vals[i])
			}
		}
		in.failures = append(in.failures, Failure{Msg: msg, Model: m, Path: in.ex.Trace(), Kind: "assert", Status: "sat", Chooses: in.ex.Chooses()})
	case RUnknown:
		in.failures = append(in.failures, Failure{Msg: msg, Path: in.ex.Trace(), Kind: "assert", Status: "unknown", Chooses: in.ex.Chooses()})
	}
	// continue under the assertion (no feasibility query: an infeasible continuation only yields vacuous checks)
	if c.IsConst && c.C == 0 {
		panic(abort("assume", "assertion false on every input of this path"))
	}
	if r == RSat || r == RUnknown {
		r2, _ := in.s.CheckPC(in.pc, []*Term{c}, nil)
		if r2 == RUnsat {
			panic(abort("assume", "assertion false on every input of this path"))
		}
		in.assume(c)
	}
	// when the negation is unsat the assertion is implied by the path condition: nothing to add
}

// modelValue extracts the value part of "((name value))"
func modelValue(s string) string {
	s = strings.TrimSpace(s)
	s = strings.TrimPrefix(s, "((")
	s = strings.TrimSuffix(s, "))")
	if i := strings.Index(s, " "); i >= 0 {
		return strings.TrimSpace(s[i+1:])
	}
	return s
}

func (in *Interp) fresh(name string, sort Sort) *Term {
	t := in.s.Fresh(name, sort)
	in.nondets = append(in.nondets, nondet{Name: fmt.Sprintf("%s#%d", name, len(in.nondets)), T: t})
	return t
}

func (in *Interp) nondetOf(t types.Type, name string) Val {
	if w, ok := fieldElemWords(t); ok {
		arr := in.zero(t).(*ArrayV)
		_ = w
		arr.E[0] = in.cfg.Field.Fresh(in, name, wordW(arr))
		return arr
	}
	switch u := t.Underlying().(type) {
	case *types.Basic:
		if w, _, ok := intWidth(u); ok {
			return in.fresh(name, BVSort(w))
		}
		if u.Kind() == types.Bool {
			return in.fresh(name, BoolSort)
		}
	case *types.Struct:
		s := &StructV{F: make([]Val, u.NumFields())}
		for i := 0; i < u.NumFields(); i++ {
			s.F[i] = in.nondetOf(u.Field(i).Type(), name+"."+u.Field(i).Name())
		}
		return s
	case *types.Array:
		a := &ArrayV{E: make([]Val, u.Len())}
		for i := range a.E {
			a.E[i] = in.nondetOf(u.Elem(), fmt.Sprintf("%s[%d]", name, i))
		}
		return a
	}
	panic(abort("unmodelled", "nondet value of type "+t.String()))
}

// ---------------------------------------------------------------------------
// field elements

var fieldPkgSuffixes = []string{"/fr", "/fp", "tinyfield", "babybear", "koalabear", "goldilocks"}

func isFieldPkg(path string) bool {
	for _, s := range fieldPkgSuffixes {
		if strings.HasSuffix(path, s) {
			return true
		}
	}
	return false
}

// fieldElemWords reports whether t is a field element type (gnark-crypto style Element, or constraint.U32/U64)
func fieldElemWords(t types.Type) (int, bool) {
	n, ok := t.(*types.Named)
	if !ok {
		if a, ok2 := t.(*types.Alias); ok2 {
			return fieldElemWords(types.Unalias(a))
		}
		return 0, false
	}
	obj := n.Obj()
	if obj.Pkg() == nil {
		return 0, false
	}
	arr, ok := n.Underlying().(*types.Array)
	if !ok {
		return 0, false
	}
	if obj.Name() == "Element" && isFieldPkg(obj.Pkg().Path()) {
		return int(arr.Len()), true
	}
	if (obj.Name() == "U32" || obj.Name() == "U64") && obj.Pkg().Path() == "github.com/consensys/gnark/constraint" {
		return int(arr.Len()), true
	}
	return 0, false
}

// ---------------------------------------------------------------------------

var inertPkgs = []string{
	"github.com/rs/zerolog", "github.com/consensys/gnark/logger", "time", "runtime/debug", "github.com/consensys/gnark/profile", "log", "os",
	"github.com/consensys/gnark/debug",
}

func isInertPkg(path string) bool {
	for _, p := range inertPkgs {
		if path == p || strings.HasPrefix(path, p+"/") {
			return true
		}
	}
	return false
}

func fnPkgPath(fn *ssa.Function) string {
	if fn.Pkg != nil {
		return fn.Pkg.Pkg.Path()
	}
	if o := fn.Origin(); o != nil && o.Pkg != nil {
		return o.Pkg.Pkg.Path()
	}
	if fn.Object() != nil && fn.Object().Pkg() != nil {
		return fn.Object().Pkg().Path()
	}
	if p := fn.Parent(); p != nil {
		return fnPkgPath(p)
	}
	return ""
}

func recvNamed(fn *ssa.Function) *types.Named {
	if fn.Signature.Recv() == nil {
		return nil
	}
	t := fn.Signature.Recv().Type()
	if p, ok := t.(*types.Pointer); ok {
		t = p.Elem()
	}
	n, _ := types.Unalias(t).(*types.Named)
	return n
}

func (in *Interp) newError(msg string) Val {
	ep := in.prog.ImportedPackage("errors")
	if ep == nil {
		panic(abort("unmodelled", "package errors not loaded"))
	}
	es := ep.Type("errorString")
	if es == nil {
		panic(abort("unmodelled", "errors.errorString not found"))
	}
	obj := in.newObj(&StructV{F: []Val{msg}}, "error")
	return IfaceV{T: types.NewPointer(es.Type()), V: Ptr{Obj: obj}}
}

// assertions over real terms of a degree above this bound are not sent to the solver
const maxSolverDegree = 200

func findStub(in *Interp, fn *ssa.Function) StubFn {
	pkg := fnPkgPath(fn)
	name := fn.Name()
	if s := in.cfg.extraStub(in, fn, pkg, name); s != nil {
		return s
	}
	if rn := recvNamed(fn); rn != nil {
		if _, ok := fieldElemWords(rn); ok && (rn.Obj().Name() == "U64" || rn.Obj().Name() == "U32") && name == "IsZero" {
			// ORs the raw words: in the field models only word 0 carries the value
			return func(in *Interp, fn *ssa.Function, a []Val) Val {
				return in.cfg.Field.Eq(in, in.frRead(a[0]), in.frConst(a[0], 0))
			}
		}
		if _, ok := fieldElemWords(rn); ok && rn.Obj().Name() == "Element" {
			if st := fieldStub(in, fn, rn.Obj().Name()); st != nil {
				return st
			}
			if len(fn.Blocks) > 0 || true {
				return func(in *Interp, fn *ssa.Function, a []Val) Val {
					panic(abort("unmodelled", "field element method without stub: "+fn.String()))
				}
			}
		}
	}
	switch pkg {
	case "github.com/consensys/gnark/constraint/solver":
		if name == "GetHintID" {
			// derived from the hint's name by reflection: an opaque constant id
			return func(in *Interp, fn *ssa.Function, a []Val) Val { return BVConst(0x5eed, 32) }
		}
		if name == "GetHintName" {
			return func(in *Interp, fn *ssa.Function, a []Val) Val { return "<hint>" }
		}
	case "math":
		switch name {
		case "Ceil", "Floor", "Sqrt", "Log2", "Trunc":
			return func(in *Interp, fn *ssa.Function, a []Val) Val {
				x, ok := a[0].(float64)
				if !ok {
					panic(abort("unmodelled", "math."+name+" of a symbolic float"))
				}
				switch name {
				case "Ceil":
					return math.Ceil(x)
				case "Floor":
					return math.Floor(x)
				case "Sqrt":
					return math.Sqrt(x)
				case "Log2":
					return math.Log2(x)
				}
				return math.Trunc(x)
			}
		}
	case "errors":
		if name == "As" {
			// errors.As without an Unwrap chain: the error matches when its dynamic type is the target's element type
			// (or implements it, for an interface target); the errors built by the fmt stubs wrap nothing
			return func(in *Interp, fn *ssa.Function, a []Val) Val {
				e, _ := a[0].(IfaceV)
				tg, _ := a[1].(IfaceV)
				pt, ok := tg.T.(*types.Pointer)
				if !ok {
					in.progPanic("errors: target must be a non-nil pointer")
				}
				if e.T == nil {
					return BoolConst(false)
				}
				el := pt.Elem()
				if it, isI := el.Underlying().(*types.Interface); isI {
					if types.Implements(e.T, it) {
						in.store(tg.V.(Ptr), e)
						return BoolConst(true)
					}
					return BoolConst(false)
				}
				if types.Identical(e.T, el) {
					in.store(tg.V.(Ptr), e.V)
					return BoolConst(true)
				}
				return BoolConst(false)
			}
		}
	case "sort":
		if (name == "Slice" || name == "SliceStable") && fn.Signature.Recv() == nil {
			// insertion sort driven by the caller's less closure (forks on symbolic comparisons);
			// any order consistent with less is a valid outcome of sort.Slice, equal keys keep their order
			return func(in *Interp, fn *ssa.Function, a []Val) Val {
				s, ok := a[0].(IfaceV).V.(SliceV)
				if !ok {
					panic(abort("unmodelled", "sort.Slice on a non-slice"))
				}
				less := a[1].(FuncV)
				for i := 1; i < s.Len; i++ {
					for j := i; j > 0; j-- {
						r := in.call(less, []Val{BVConst(uint64(j), 64), BVConst(uint64(j-1), 64)}, nil)
						if !in.branch(r.(*Term)) {
							break
						}
						x, y := in.sliceGet(s, j), in.sliceGet(s, j-1)
						in.store(in.sliceElemPtr(s, j), y)
						in.store(in.sliceElemPtr(s, j-1), x)
					}
				}
				return nil
			}
		}
	case "reflect":
		switch name {
		case "ValueOf":
			return func(in *Interp, fn *ssa.Function, a []Val) Val { return &ReflectV{V: a[0].(IfaceV)} }
		case "Len":
			return func(in *Interp, fn *ssa.Function, a []Val) Val {
				rv, ok := a[0].(*ReflectV)
				if !ok {
					panic(abort("unmodelled", "reflect.Value.Len on a value not built by ValueOf"))
				}
				switch x := rv.V.V.(type) {
				case SliceV:
					return BVConst(uint64(x.Len), 64)
				case string:
					return BVConst(uint64(len(x)), 64)
				case *ArrayV:
					return BVConst(uint64(len(x.E)), 64)
				}
				in.progPanic("reflect: call of reflect.Value.Len on a value that has no length")
				return nil
			}
		}
	case "fmt":
		switch name {
		case "Errorf":
			return func(in *Interp, fn *ssa.Function, a []Val) Val { return in.newError("fmt.Errorf:" + fmt.Sprint(a[0])) }
		case "Sprintf", "Sprint", "Sprintln":
			return func(in *Interp, fn *ssa.Function, a []Val) Val { return "<fmt>" }
		case "Println", "Printf", "Print", "Fprintf", "Fprintln", "Fprint":
			return func(in *Interp, fn *ssa.Function, a []Val) Val { return in.zero(fn.Signature.Results()) }
		}
	case "sync/atomic":
		switch name {
		case "AddUint64", "AddInt64", "AddUint32", "AddInt32":
			return func(in *Interp, fn *ssa.Function, a []Val) Val {
				p := a[0].(Ptr)
				nv := in.s.BVBin("bvadd", in.load(p).(*Term), a[1].(*Term))
				in.store(p, nv)
				return nv
			}
		case "LoadUint64", "LoadInt64", "LoadUint32", "LoadInt32":
			return func(in *Interp, fn *ssa.Function, a []Val) Val { return in.load(a[0].(Ptr)) }
		case "StoreUint64", "StoreInt64", "StoreUint32", "StoreInt32":
			return func(in *Interp, fn *ssa.Function, a []Val) Val { in.store(a[0].(Ptr), a[1]); return nil }
		}
	case "sync":
		if rn := recvNamed(fn); rn != nil {
			if in.sched != nil {
				if st := schedSyncStub(rn.Obj().Name() + "." + name); st != nil {
					return st
				}
			}
			switch rn.Obj().Name() + "." + name {
			case "Mutex.Lock", "Mutex.Unlock", "RWMutex.Lock", "RWMutex.Unlock", "RWMutex.RLock", "RWMutex.RUnlock",
				"WaitGroup.Add", "WaitGroup.Done", "WaitGroup.Wait":
				return func(in *Interp, fn *ssa.Function, a []Val) Val {
					if in.cfg.onLock != nil {
						in.cfg.onLock(in, name, a)
					}
					return nil
				}
			case "Map.Load", "Map.Store", "Map.LoadOrStore", "Map.Delete":
				// sync.Map as an association list (sequential model; key equality as for built-in maps)
				return func(in *Interp, fn *ssa.Function, a []Val) Val {
					p := a[0].(Ptr)
					key := fmt.Sprintf("syncmap:%d:%v", p.Obj.ID, p.Path)
					if in.syncMaps == nil {
						in.syncMaps = map[string]*MapObj{}
					}
					m := in.syncMaps[key]
					if m == nil {
						m = &MapObj{}
						in.syncMaps[key] = m
					}
					switch name {
					case "Store":
						in.mapSet(m, a[1], a[2])
						return nil
					case "Delete":
						if i := in.mapFind(m, a[1]); i >= 0 {
							m.Entries = append(m.Entries[:i:i], m.Entries[i+1:]...)
						}
						return nil
					case "Load":
						if i := in.mapFind(m, a[1]); i >= 0 {
							return TupleV{m.Entries[i].V, BoolConst(true)}
						}
						return TupleV{IfaceV{}, BoolConst(false)}
					default: // LoadOrStore
						if i := in.mapFind(m, a[1]); i >= 0 {
							return TupleV{m.Entries[i].V, BoolConst(true)}
						}
						in.mapSet(m, a[1], a[2])
						return TupleV{a[2], BoolConst(false)}
					}
				}
			case "Once.Do":
				return func(in *Interp, fn *ssa.Function, a []Val) Val {
					p := a[0].(Ptr)
					key := fmt.Sprintf("once:%d:%v", p.Obj.ID, p.Path)
					if in.once[key] {
						return nil
					}
					in.once[key] = true
					in.invoke(a[1].(FuncV), nil)
					return nil
				}
			}
		}
	}
	if isInertPkg(pkg) {
		return func(in *Interp, fn *ssa.Function, a []Val) Val {
			res := fn.Signature.Results()
			switch res.Len() {
			case 0:
				return nil
			case 1:
				return in.zero(res.At(0).Type())
			}
			return in.zero(res)
		}
	}
	return nil
}
