package main

// term.go: SMT-LIB2 terms with constant folding, and the live solver process.

import (
	"bufio"
	"fmt"
	"io"
	"math/big"
	"os"
	"os/exec"
	"strings"
	"time"
)

type SortKind int

const (
	SBool SortKind = iota
	SBV
	SReal
	SOpaque // uninterpreted sort (group elements, hashes ...) : declared on demand
)

type Sort struct {
	K    SortKind
	W    int    // bit width for SBV
	Name string // for SOpaque
}

func (s Sort) String() string {
	switch s.K {
	case SBool:
		return "Bool"
	case SBV:
		return fmt.Sprintf("(_ BitVec %d)", s.W)
	case SReal:
		return "Real"
	}
	return s.Name
}

func BVSort(w int) Sort { return Sort{K: SBV, W: w} }

var BoolSort = Sort{K: SBool}
var RealSort = Sort{K: SReal}

type Term struct {
	S       string
	Sort    Sort
	IsConst bool
	C       uint64   // value for constant BV (w<=64) ; 0/1 for Bool
	Q       *big.Rat // value for constant Real
	Deg     int      // upper bound on the polynomial degree of a Real term / of the Real terms a Bool term compares (0 = unknown or constant)
}

func (t *Term) String() string { return t.S }

func mask(w int) uint64 {
	if w >= 64 {
		return ^uint64(0)
	}
	return (uint64(1) << uint(w)) - 1
}

func BVConst(v uint64, w int) *Term {
	v &= mask(w)
	var s string
	if w%4 == 0 {
		s = fmt.Sprintf("#x%0*x", w/4, v)
	} else {
		s = fmt.Sprintf("#b%0*b", w, v)
	}
	return &Term{S: s, Sort: BVSort(w), IsConst: true, C: v}
}

func BoolConst(b bool) *Term {
	if b {
		return &Term{S: "true", Sort: BoolSort, IsConst: true, C: 1}
	}
	return &Term{S: "false", Sort: BoolSort, IsConst: true, C: 0}
}

func RealConst(q *big.Rat) *Term {
	var s string
	n, d := new(big.Int).Set(q.Num()), q.Denom()
	neg := n.Sign() < 0
	if neg {
		n.Neg(n)
	}
	if d.Cmp(big.NewInt(1)) == 0 {
		s = n.String() + ".0"
	} else {
		s = fmt.Sprintf("(/ %s.0 %s.0)", n.String(), d.String())
	}
	if neg {
		s = "(- " + s + ")"
	}
	return &Term{S: s, Sort: RealSort, IsConst: true, Q: new(big.Rat).Set(q)}
}

func RealInt(i int64) *Term { return RealConst(new(big.Rat).SetInt64(i)) }

// ---------------------------------------------------------------------------

type Solver struct {
	cmd      *exec.Cmd
	in       io.WriteCloser
	out      *bufio.Reader
	nDef     int
	nSym     int
	Queries  int
	Sat      int
	Unsat    int
	Unknown  int
	Seconds  float64
	Slow     int
	SlowSeconds float64
	log      io.Writer
	decls    map[string]bool
	timeoutMs int
	bin      string
	Transcript []string // declarations + definitions, for re-checking with another solver
	defs     map[string]string // definition body -> name (hash-consing across paths)
	stack    []string          // assertions currently pushed (one level each), mirrors the path condition
	symCount map[string]int
	DumpDir  string
	nDump    int
}

// ResetPath restarts the per-path numbering of fresh symbols, so that re-executed
// prefixes produce string-identical terms and the pushed assertions can be reused.
func (s *Solver) ResetPath() { s.symCount = map[string]int{} }

func NewSolver(bin string, timeoutMs int, log io.Writer) (*Solver, error) {
	args := []string{"-in", "-memory:6000"} // hard memory cap: a query that blows up ends as an error (= inconclusive), not as an exhausted machine
	if strings.Contains(bin, "cvc5") {
		args = []string{"--incremental", "--lang=smt2"}
	}
	cmd := exec.Command(bin, args...)
	in, err := cmd.StdinPipe()
	if err != nil {
		return nil, err
	}
	out, err := cmd.StdoutPipe()
	if err != nil {
		return nil, err
	}
	cmd.Stderr = cmd.Stdout
	if err := cmd.Start(); err != nil {
		return nil, err
	}
	s := &Solver{cmd: cmd, in: in, out: bufio.NewReaderSize(out, 1<<20), log: log, decls: map[string]bool{}, timeoutMs: timeoutMs, bin: bin}
	if !strings.Contains(bin, "cvc5") {
		s.send(fmt.Sprintf("(set-option :timeout %d)", timeoutMs))
	} else {
		s.send("(set-logic ALL)")
		s.send(fmt.Sprintf("(set-option :tlimit-per %d)", timeoutMs))
	}
	s.send("(set-option :produce-models true)")
	s.send("(set-option :global-declarations true)")
	s.defs = map[string]string{}
	return s, nil
}

func (s *Solver) send(line string) {
	if s.log != nil {
		fmt.Fprintln(s.log, line)
	}
	io.WriteString(s.in, line+"\n")
}

func (s *Solver) readLine() string {
	l, err := s.out.ReadString('\n')
	if err != nil {
		return "(error \"solver closed: " + err.Error() + "\")"
	}
	return strings.TrimSpace(l)
}

func (s *Solver) Close() {
	s.send("(exit)")
	s.in.Close()
	s.cmd.Wait()
}

// Fresh declares a new symbolic constant.
func (s *Solver) Fresh(prefix string, sort Sort) *Term {
	if s.symCount == nil {
		s.symCount = map[string]int{}
	}
	base := sanitize(prefix) + "!" + sortTag(sort)
	s.symCount[base]++
	name := fmt.Sprintf("%s!%d", base, s.symCount[base])
	if !s.decls["sym:"+name] {
		s.decls["sym:"+name] = true
		s.nSym++
		s.declareSort(sort)
		d := fmt.Sprintf("(declare-const %s %s)", name, sort)
		s.send(d)
		s.Transcript = append(s.Transcript, d)
	}
	return &Term{S: name, Sort: sort}
}

func (s *Solver) declareSort(sort Sort) {
	if sort.K == SOpaque && !s.decls["sort:"+sort.Name] {
		s.decls["sort:"+sort.Name] = true
		d := fmt.Sprintf("(declare-sort %s 0)", sort.Name)
		s.send(d)
		s.Transcript = append(s.Transcript, d)
	}
}

// UF applies an uninterpreted function (declared on first use).
func (s *Solver) UF(name string, ret Sort, args ...*Term) *Term {
	name = sanitize(name)
	key := name
	for _, a := range args {
		key += "|" + a.Sort.String()
	}
	key += "->" + ret.String()
	if !s.decls[key] {
		s.decls[key] = true
		s.declareSort(ret)
		var as []string
		for _, a := range args {
			s.declareSort(a.Sort)
			as = append(as, a.Sort.String())
		}
		d := fmt.Sprintf("(declare-fun %s (%s) %s)", ufName(name, args, ret), strings.Join(as, " "), ret)
		s.send(d)
		s.Transcript = append(s.Transcript, d)
	}
	fn := ufName(name, args, ret)
	if len(args) == 0 {
		return &Term{S: fn, Sort: ret}
	}
	var as []string
	for _, a := range args {
		as = append(as, a.S)
	}
	return s.share(&Term{S: fmt.Sprintf("(%s %s)", fn, strings.Join(as, " ")), Sort: ret})
}

func ufName(name string, args []*Term, ret Sort) string {
	// arity/sort mangling so that one logical name can be used at several arities
	n := name + "_" + fmt.Sprint(len(args))
	for _, a := range args {
		n += sortTag(a.Sort)
	}
	return n + "_" + sortTag(ret)
}

func sortTag(s Sort) string {
	switch s.K {
	case SBool:
		return "b"
	case SBV:
		return fmt.Sprintf("v%d", s.W)
	case SReal:
		return "r"
	}
	return "o" + s.Name
}

func sanitize(s string) string {
	var b strings.Builder
	for _, r := range s {
		if (r >= 'a' && r <= 'z') || (r >= 'A' && r <= 'Z') || (r >= '0' && r <= '9') || r == '_' || r == '.' {
			b.WriteRune(r)
		} else {
			b.WriteRune('_')
		}
	}
	return b.String()
}

// share gives a name to large terms so that term strings stay small (DAG sharing).
func (s *Solver) share(t *Term) *Term {
	if t.IsConst || len(t.S) < 160 {
		return t
	}
	key := t.Sort.String() + "|" + t.S
	if name, ok := s.defs[key]; ok {
		return &Term{S: name, Sort: t.Sort}
	}
	s.nDef++
	name := fmt.Sprintf("d!%d", s.nDef)
	d := fmt.Sprintf("(define-fun %s () %s %s)", name, t.Sort, t.S)
	s.send(d)
	s.Transcript = append(s.Transcript, d)
	s.defs[key] = name
	return &Term{S: name, Sort: t.Sort}
}

type CheckResult int

const (
	RUnsat CheckResult = iota
	RSat
	RUnknown
)

func (r CheckResult) String() string { return [...]string{"unsat", "sat", "unknown"}[r] }

// Check decides satisfiability of the conjunction of the given Bool terms.
// If wantModel is non-nil and the result is sat, the values of those terms are returned.
func (s *Solver) Check(assertions []*Term, wantModel []*Term) (CheckResult, []string) {
	return s.CheckPC(nil, assertions, wantModel)
}

// sync makes the pushed assertion stack equal to the (non-trivial) conjuncts of pc
func (s *Solver) sync(pc []*Term) {
	var want []string
	for _, a := range pc {
		if a.IsConst && a.C == 1 {
			continue
		}
		want = append(want, a.S)
	}
	i := 0
	for i < len(want) && i < len(s.stack) && want[i] == s.stack[i] {
		i++
	}
	if n := len(s.stack) - i; n > 0 {
		s.send(fmt.Sprintf("(pop %d)", n))
		s.stack = s.stack[:i]
	}
	for ; i < len(want); i++ {
		s.send("(push 1)")
		s.send("(assert " + want[i] + ")")
		s.stack = append(s.stack, want[i])
	}
}

// CheckPC decides pc /\ extra; the path condition is kept pushed between calls.
func (s *Solver) CheckPC(pc []*Term, assertions []*Term, wantModel []*Term) (CheckResult, []string) {
	t0 := time.Now()
	s.Queries++
	s.sync(pc)
	s.send("(push 1)")
	for _, a := range assertions {
		if a.IsConst && a.C == 1 {
			continue
		}
		s.send("(assert " + a.S + ")")
	}
	s.send("(check-sat)")
	res := RUnknown
	for {
		l := s.readLine()
		if l == "sat" {
			res = RSat
			break
		}
		if l == "unsat" {
			res = RUnsat
			break
		}
		if l == "unknown" || l == "timeout" {
			break
		}
		if strings.HasPrefix(l, "(error") {
			// an error line means the answer cannot be trusted
			fmt.Fprintln(logw, "SOLVER ERROR:", l)
			s.Unknown++
			s.send("(pop 1)")
			s.Seconds += time.Since(t0).Seconds()
			return RUnknown, nil
		}
		if l == "" {
			continue
		}
		// other output (warnings): ignore
	}
	if res == RUnknown && s.DumpDir != "" {
		s.nDump++
		var b strings.Builder
		for _, l := range s.Transcript {
			b.WriteString(l + "\n")
		}
		for _, a := range s.stack {
			b.WriteString("(assert " + a + ")\n")
		}
		for _, a := range assertions {
			b.WriteString("(assert " + a.S + ")\n")
		}
		b.WriteString("(check-sat)\n")
		os.WriteFile(fmt.Sprintf("%s/unknown_%d.smt2", s.DumpDir, s.nDump), []byte(b.String()), 0o644)
	}
	var vals []string
	if res == RSat && len(wantModel) > 0 {
		for _, t := range wantModel {
			s.send("(get-value (" + t.S + "))")
			vals = append(vals, s.readSexp())
		}
	}
	s.send("(pop 1)")
	dt := time.Since(t0).Seconds()
	s.Seconds += dt
	if dt > 1.0 {
		s.Slow++
		s.SlowSeconds += dt
	}
	switch res {
	case RSat:
		s.Sat++
	case RUnsat:
		s.Unsat++
	default:
		s.Unknown++
	}
	return res, vals
}

// readSexp reads one complete s-expression (possibly spanning lines).
func (s *Solver) readSexp() string {
	var b strings.Builder
	depth := 0
	started := false
	for {
		l := s.readLine()
		if l == "" && !started {
			continue
		}
		b.WriteString(l)
		b.WriteString(" ")
		for _, c := range l {
			if c == '(' {
				depth++
				started = true
			} else if c == ')' {
				depth--
			}
		}
		if started && depth <= 0 {
			break
		}
		if !started && l != "" {
			break
		}
	}
	return strings.TrimSpace(b.String())
}

// ---------------------------------------------------------------------------
// term constructors with folding

func (s *Solver) app(sort Sort, op string, args ...*Term) *Term {
	var as []string
	for _, a := range args {
		as = append(as, a.S)
	}
	return s.share(&Term{S: "(" + op + " " + strings.Join(as, " ") + ")", Sort: sort})
}

func (s *Solver) Not(a *Term) *Term {
	if a.IsConst {
		return BoolConst(a.C == 0)
	}
	if strings.HasPrefix(a.S, "(not ") {
		return &Term{S: a.S[5 : len(a.S)-1], Sort: BoolSort}
	}
	t := s.app(BoolSort, "not", a)
	t.Deg = a.Deg
	return t
}

func (s *Solver) And(as ...*Term) *Term {
	var out []*Term
	for _, a := range as {
		if a.IsConst {
			if a.C == 0 {
				return BoolConst(false)
			}
			continue
		}
		out = append(out, a)
	}
	if len(out) == 0 {
		return BoolConst(true)
	}
	if len(out) == 1 {
		return out[0]
	}
	return s.app(BoolSort, "and", out...)
}

func (s *Solver) Or(as ...*Term) *Term {
	var out []*Term
	for _, a := range as {
		if a.IsConst {
			if a.C == 1 {
				return BoolConst(true)
			}
			continue
		}
		out = append(out, a)
	}
	if len(out) == 0 {
		return BoolConst(false)
	}
	if len(out) == 1 {
		return out[0]
	}
	return s.app(BoolSort, "or", out...)
}

func (s *Solver) Implies(a, b *Term) *Term { return s.Or(s.Not(a), b) }

func (s *Solver) Ite(c, a, b *Term) *Term {
	if c.IsConst {
		if c.C == 1 {
			return a
		}
		return b
	}
	if a.S == b.S {
		return a
	}
	if a.Sort.K == SBool {
		return s.And(s.Or(s.Not(c), a), s.Or(c, b))
	}
	return s.app(a.Sort, "ite", c, a, b)
}

func (s *Solver) Eq(a, b *Term) *Term {
	if a.Sort.String() != b.Sort.String() {
		panic(fmt.Sprintf("Eq sort mismatch %s vs %s (%s , %s)", a.Sort, b.Sort, a.S, b.S))
	}
	if a.IsConst && b.IsConst {
		if a.Sort.K == SReal {
			return BoolConst(a.Q.Cmp(b.Q) == 0)
		}
		return BoolConst(a.C == b.C)
	}
	if a.S == b.S {
		return BoolConst(true)
	}
	t := s.app(BoolSort, "=", a, b)
	if a.Sort.K == SReal {
		t.Deg = a.Deg
		if b.Deg > t.Deg {
			t.Deg = b.Deg
		}
	}
	return t
}

func sext(v uint64, w int) int64 {
	if w >= 64 {
		return int64(v)
	}
	if v&(1<<uint(w-1)) != 0 {
		return int64(v | ^mask(w))
	}
	return int64(v)
}

// BVBin builds a binary bit-vector operation; op is an SMT-LIB name.
func (s *Solver) BVBin(op string, a, b *Term) *Term {
	w := a.Sort.W
	if a.Sort.K != SBV || b.Sort.K != SBV || b.Sort.W != w {
		panic(fmt.Sprintf("BVBin %s sort mismatch %s %s", op, a.Sort, b.Sort))
	}
	if a.IsConst && b.IsConst {
		x, y := a.C, b.C
		switch op {
		case "bvadd":
			return BVConst(x+y, w)
		case "bvsub":
			return BVConst(x-y, w)
		case "bvmul":
			return BVConst(x*y, w)
		case "bvand":
			return BVConst(x&y, w)
		case "bvor":
			return BVConst(x|y, w)
		case "bvxor":
			return BVConst(x^y, w)
		case "bvshl":
			if y >= uint64(w) {
				return BVConst(0, w)
			}
			return BVConst(x<<y, w)
		case "bvlshr":
			if y >= uint64(w) {
				return BVConst(0, w)
			}
			return BVConst(x>>y, w)
		case "bvashr":
			if y >= uint64(w) {
				y = uint64(w - 1)
			}
			return BVConst(uint64(sext(x, w)>>y), w)
		case "bvudiv":
			if y != 0 {
				return BVConst(x/y, w)
			}
		case "bvurem":
			if y != 0 {
				return BVConst(x%y, w)
			}
		case "bvsdiv":
			if y != 0 {
				return BVConst(uint64(sext(x, w)/sext(y, w)), w)
			}
		case "bvsrem":
			if y != 0 {
				return BVConst(uint64(sext(x, w)%sext(y, w)), w)
			}
		}
	}
	// cheap identities
	if b.IsConst && b.C == 0 && (op == "bvadd" || op == "bvsub" || op == "bvor" || op == "bvxor" || op == "bvshl" || op == "bvlshr") {
		return a
	}
	if a.IsConst && a.C == 0 && (op == "bvadd" || op == "bvor" || op == "bvxor") {
		return b
	}
	if (op == "bvmul" || op == "bvand") && ((a.IsConst && a.C == 0) || (b.IsConst && b.C == 0)) {
		return BVConst(0, w)
	}
	return s.app(a.Sort, op, a, b)
}

func (s *Solver) BVCmp(op string, a, b *Term) *Term {
	w := a.Sort.W
	if a.Sort.K != SBV || b.Sort.K != SBV || b.Sort.W != w {
		panic(fmt.Sprintf("BVCmp %s sort mismatch %s %s", op, a.Sort, b.Sort))
	}
	if a.IsConst && b.IsConst {
		x, y := a.C, b.C
		sx, sy := sext(x, w), sext(y, w)
		switch op {
		case "bvult":
			return BoolConst(x < y)
		case "bvule":
			return BoolConst(x <= y)
		case "bvugt":
			return BoolConst(x > y)
		case "bvuge":
			return BoolConst(x >= y)
		case "bvslt":
			return BoolConst(sx < sy)
		case "bvsle":
			return BoolConst(sx <= sy)
		case "bvsgt":
			return BoolConst(sx > sy)
		case "bvsge":
			return BoolConst(sx >= sy)
		}
	}
	return s.app(BoolSort, op, a, b)
}

func (s *Solver) BVNot(a *Term) *Term {
	if a.IsConst {
		return BVConst(^a.C, a.Sort.W)
	}
	return s.app(a.Sort, "bvnot", a)
}

func (s *Solver) BVNeg(a *Term) *Term {
	if a.IsConst {
		return BVConst(-a.C, a.Sort.W)
	}
	return s.app(a.Sort, "bvneg", a)
}

// Resize converts a bit-vector to width w (truncate / zero- or sign-extend).
func (s *Solver) Resize(a *Term, w int, signed bool) *Term {
	aw := a.Sort.W
	if aw == w {
		return a
	}
	if a.IsConst {
		if w < aw {
			return BVConst(a.C, w)
		}
		if signed {
			return BVConst(uint64(sext(a.C, aw)), w)
		}
		return BVConst(a.C, w)
	}
	if w < aw {
		return s.share(&Term{S: fmt.Sprintf("((_ extract %d 0) %s)", w-1, a.S), Sort: BVSort(w)})
	}
	ext := "zero_extend"
	if signed {
		ext = "sign_extend"
	}
	return s.share(&Term{S: fmt.Sprintf("((_ %s %d) %s)", ext, w-aw, a.S), Sort: BVSort(w)})
}

// ---- reals

func (s *Solver) RBin(op string, a, b *Term) *Term {
	if a.Sort.K != SReal || b.Sort.K != SReal {
		panic(fmt.Sprintf("RBin %s sort mismatch %s %s", op, a.Sort, b.Sort))
	}
	if a.IsConst && b.IsConst {
		r := new(big.Rat)
		switch op {
		case "+":
			return RealConst(r.Add(a.Q, b.Q))
		case "-":
			return RealConst(r.Sub(a.Q, b.Q))
		case "*":
			return RealConst(r.Mul(a.Q, b.Q))
		}
	}
	zero := func(t *Term) bool { return t.IsConst && t.Q.Sign() == 0 }
	one := func(t *Term) bool { return t.IsConst && t.Q.Cmp(big.NewRat(1, 1)) == 0 }
	switch op {
	case "+":
		if zero(a) {
			return b
		}
		if zero(b) {
			return a
		}
	case "-":
		if zero(b) {
			return a
		}
	case "*":
		if zero(a) || zero(b) {
			return RealInt(0)
		}
		if one(a) {
			return b
		}
		if one(b) {
			return a
		}
	}
	// canonical form of the commutative operations (sound rewriting; makes two computations of the
	// same expression by different operand orders the same term): x + x = 2*x, operands ordered
	if op == "+" && a == b {
		return s.RBin("*", RealInt(2), a)
	}
	if (op == "+" || op == "*") && a.S > b.S {
		a, b = b, a
	}
	t := s.app(RealSort, op, a, b)
	da, db := a.Deg, b.Deg
	if !a.IsConst && da == 0 {
		da = 1
	}
	if !b.IsConst && db == 0 {
		db = 1
	}
	if op == "*" {
		t.Deg = da + db
	} else if da > db {
		t.Deg = da
	} else {
		t.Deg = db
	}
	if t.Deg > 1<<30 {
		t.Deg = 1 << 30
	}
	return t
}

func (s *Solver) RNeg(a *Term) *Term { return s.RBin("-", RealInt(0), a) }
