package main

// algebra.go: the "generic group" model of the curve layer (directive `//verif:crypto algebra`).
// A group element is its discrete logarithm, a real number stored in the first machine word of
// its first coordinate; MultiExp is a dot product, additions are additions, a pairing is the
// product of the logarithms, the product in GT (FinalExponentiation(a, b...)) their sum, GT
// equality is equality. Polynomial identities between pairing-product equations that hold here
// hold in every group of the right structure; a `sat` answer exhibits logarithms for which the
// implementation's equation and the reference equation differ.

import (
	"go/types"
	"strings"

	"golang.org/x/tools/go/ssa"
)

// leaf0 returns a pointer to the first word-array (coordinate) of a point / GT value
func (in *Interp) leaf0(p Ptr) Ptr {
	v := in.loadRef(p)
	for {
		switch x := v.(type) {
		case *StructV:
			p = p.sub(0)
			v = x.F[0]
			continue
		case *ArrayV:
			if len(x.E) > 0 {
				if _, isTerm := x.E[0].(*Term); isTerm {
					return p
				}
				p = p.sub(0)
				v = x.E[0]
				continue
			}
		}
		panic(abort("internal", "no coordinate found in group element"))
	}
}

func (in *Interp) dlog(v Val) *Term {
	switch x := v.(type) {
	case Ptr:
		if x.Obj == nil {
			in.progPanic("nil pointer dereference")
		}
		arr := in.loadRef(in.leaf0(x)).(*ArrayV)
		return in.coerceReal(arr.E[0].(*Term))
	case *StructV, *ArrayV:
		tmp := Ptr{Obj: &Obj{V: v, ID: -1}}
		return in.dlog(tmp)
	}
	panic(abort("internal", "dlog of non-point"))
}

func (in *Interp) setDlog(p Ptr, t *Term) {
	lp := in.leaf0(p)
	arr := in.load(lp).(*ArrayV)
	arr.E[0] = t
	in.store(lp, arr)
}

func algebraStub(in *Interp, fn *ssa.Function, pkg, name string) StubFn {
	if !in.cfg.AlgebraCrypto || !strings.HasPrefix(pkg, "github.com/consensys/gnark-crypto/ecc/") {
		return nil
	}
	rn := recvNamed(fn)
	R := func(op string, a, b *Term) *Term { return in.s.RBin(op, a, b) }
	if rn == nil {
		switch name {
		case "MillerLoop", "Pair":
			return func(in *Interp, fn *ssa.Function, a []Val) Val {
				p, q := a[0].(SliceV), a[1].(SliceV)
				res := fn.Signature.Results()
				gt := in.zero(res.At(0).Type())
				if p.Len == 0 || p.Len != q.Len {
					return TupleV{gt, in.newError("invalid inputs sizes")}
				}
				acc := RealInt(0)
				for i := 0; i < p.Len; i++ {
					acc = R("+", acc, R("*", in.dlog(in.sliceElemPtr(p, i)), in.dlog(in.sliceElemPtr(q, i))))
				}
				o := &Obj{V: gt, ID: -1}
				in.setDlog(Ptr{Obj: o}, acc)
				return TupleV{o.V, IfaceV{}}
			}
		case "FinalExponentiation":
			return func(in *Interp, fn *ssa.Function, a []Val) Val {
				acc := in.dlog(a[0])
				rest := a[1].(SliceV)
				for i := 0; i < rest.Len; i++ {
					acc = R("+", acc, in.dlog(in.sliceGet(rest, i)))
				}
				o := &Obj{V: in.zero(fn.Signature.Results().At(0).Type()), ID: -1}
				in.setDlog(Ptr{Obj: o}, acc)
				return o.V
			}
		}
		return nil
	}
	tn := rn.Obj().Name()
	isGroup := tn == "G1Affine" || tn == "G2Affine" || tn == "G1Jac" || tn == "G2Jac"
	isGT := strings.HasPrefix(tn, "E") && len(tn) <= 3
	if !isGroup && !isGT {
		return nil
	}
	switch name {
	case "Equal":
		return func(in *Interp, fn *ssa.Function, a []Val) Val { return in.s.Eq(in.dlog(a[0]), in.dlog(a[1])) }
	case "IsInSubGroup", "IsOnCurve":
		return func(in *Interp, fn *ssa.Function, a []Val) Val { return BoolConst(true) }
	case "MultiExp":
		return func(in *Interp, fn *ssa.Function, a []Val) Val {
			pts, sc := a[1].(SliceV), a[2].(SliceV)
			if pts.Len != sc.Len {
				return TupleV{Ptr{}, in.newError("len(points) != len(scalars)")}
			}
			acc := RealInt(0)
			for i := 0; i < pts.Len; i++ {
				acc = R("+", acc, R("*", in.frRead(in.sliceElemPtr(sc, i)), in.dlog(in.sliceElemPtr(pts, i))))
			}
			in.store(a[0].(Ptr), in.zero(rn))
			in.setDlog(a[0].(Ptr), acc)
			return TupleV{a[0], IfaceV{}}
		}
	case "AddMixed", "AddAssign":
		return func(in *Interp, fn *ssa.Function, a []Val) Val {
			in.setDlog(a[0].(Ptr), R("+", in.dlog(a[0]), in.dlog(a[1])))
			return a[0]
		}
	case "SubAssign":
		return func(in *Interp, fn *ssa.Function, a []Val) Val {
			in.setDlog(a[0].(Ptr), R("-", in.dlog(a[0]), in.dlog(a[1])))
			return a[0]
		}
	case "Add", "Sub":
		return func(in *Interp, fn *ssa.Function, a []Val) Val {
			op := map[string]string{"Add": "+", "Sub": "-"}[name]
			v := R(op, in.dlog(a[1]), in.dlog(a[2]))
			in.store(a[0].(Ptr), in.zero(rn))
			in.setDlog(a[0].(Ptr), v)
			return a[0]
		}
	case "Neg":
		return func(in *Interp, fn *ssa.Function, a []Val) Val {
			v := in.s.RNeg(in.dlog(a[1]))
			in.store(a[0].(Ptr), in.zero(rn))
			in.setDlog(a[0].(Ptr), v)
			return a[0]
		}
	case "Set", "FromJacobian", "FromAffine":
		return func(in *Interp, fn *ssa.Function, a []Val) Val {
			v := in.dlog(a[1])
			in.store(a[0].(Ptr), in.zero(rn))
			in.setDlog(a[0].(Ptr), v)
			return a[0]
		}
	}
	return nil
}

var _ = types.Typ
