package main

// sched.go: cooperative goroutine scheduler (directive `//verif:goroutines scheduled [preempt=N]`).
// Every interpreted goroutine runs on a real goroutine of its own but only the holder of the
// baton executes; the baton moves when the running goroutine blocks (channel send / receive,
// WaitGroup.Wait, Mutex.Lock), ends, or - up to N times per path - at a synchronisation
// operation (context-bounded preemption). Which eligible goroutine continues is an explorer
// decision, so every schedule within the bound is explored. No eligible goroutine while one is
// unfinished and the main goroutine is blocked = "all goroutines are asleep - deadlock!", an
// uncaught panic of the program.

import (
	"fmt"

	"golang.org/x/tools/go/ssa"
)

type G struct {
	id       int
	resume   chan struct{}
	done     bool
	waitCond func() bool
	what     string
}

type killT struct{}

type Sched struct {
	gs       []*G
	cur      *G
	kill     chan struct{}
	panicVal interface{}
	preempts int
	maxPre   int
	wg       map[string]int64
	mu       map[string]*muState
	Switches int
}

type muState struct {
	held    bool
	readers int
}

func newSched(maxPre int) *Sched {
	g0 := &G{id: 0, resume: make(chan struct{})}
	return &Sched{gs: []*G{g0}, cur: g0, kill: make(chan struct{}), maxPre: maxPre, wg: map[string]int64{}, mu: map[string]*muState{}}
}

func (s *Sched) shutdown() { close(s.kill) }

func (s *Sched) eligible(except *G) []*G {
	var r []*G
	for _, g := range s.gs {
		if g == except || g.done {
			continue
		}
		if g.waitCond == nil || g.waitCond() {
			r = append(r, g)
		}
	}
	return r
}

// park blocks the calling real goroutine until it gets the baton back
func (s *Sched) park(g *G) {
	select {
	case <-g.resume:
	case <-s.kill:
		panic(killT{})
	}
	if g.id == 0 && s.panicVal != nil {
		pv := s.panicVal
		s.panicVal = nil
		panic(pv)
	}
}

func (s *Sched) handTo(next *G) {
	s.cur = next
	s.Switches++
	next.resume <- struct{}{}
}

func (in *Interp) pickNext(cands []*G, what string) *G {
	if len(cands) == 1 {
		return cands[0]
	}
	return cands[in.ex.DecideFree(in, len(cands), "sched:"+what)]
}

// spawn registers a new goroutine; it starts when it first gets the baton
func (in *Interp) spawn(f FuncV, args []Val) {
	s := in.sched
	g := &G{id: len(s.gs), resume: make(chan struct{})}
	s.gs = append(s.gs, g)
	go func() {
		defer func() {
			r := recover()
			if _, ok := r.(killT); ok {
				return
			}
			g.done = true
			if r != nil {
				// abort or program panic inside a goroutine: the main goroutine reports it
				s.panicVal = r
				s.handTo(s.gs[0])
				return
			}
			cands := s.eligible(g)
			if len(cands) == 0 {
				s.panicVal = &ProgPanic{Val: "deadlock", Msg: "fatal error: all goroutines are asleep - deadlock! (" + s.describe() + ")"}
				s.handTo(s.gs[0])
				return
			}
			next := in.safePick(cands, "exit")
			if next == nil {
				return
			}
			s.handTo(next)
		}()
		select {
		case <-g.resume:
		case <-s.kill:
			panic(killT{})
		}
		in.invoke(f, args)
	}()
}

// safePick: pickNext may abort (explorer budget); inside a finished goroutine that has to reach the main one
func (in *Interp) safePick(cands []*G, what string) (g *G) {
	defer func() {
		if r := recover(); r != nil {
			in.sched.panicVal = r
			in.sched.handTo(in.sched.gs[0])
			g = nil
		}
	}()
	return in.pickNext(cands, what)
}

func (s *Sched) describe() string {
	r := ""
	for _, g := range s.gs {
		if !g.done {
			r += fmt.Sprintf("goroutine %d blocked on %s; ", g.id, g.what)
		}
	}
	return r
}

// waitUntil blocks the current goroutine until cond holds
func (in *Interp) waitUntil(cond func() bool, what string) {
	s := in.sched
	for !cond() {
		g := s.cur
		g.waitCond, g.what = cond, what
		cands := s.eligible(g)
		if len(cands) == 0 {
			g.waitCond = nil
			in.progPanic("fatal error: all goroutines are asleep - deadlock! (" + s.describe() + ")")
		}
		next := in.pickNext(cands, "block")
		s.handTo(next)
		s.park(g)
		g.waitCond = nil
	}
}

// schedPoint: a synchronisation operation is about to happen; within the preemption bound another
// runnable goroutine may go first
func (in *Interp) schedPoint(what string) {
	s := in.sched
	if s == nil || s.preempts >= s.maxPre {
		return
	}
	g := s.cur
	cands := s.eligible(g)
	if len(cands) == 0 {
		return
	}
	k := in.ex.DecideFree(in, len(cands)+1, "preempt:"+what)
	if k == 0 {
		return
	}
	s.preempts++
	g.what = "runnable (preempted at " + what + ")"
	s.handTo(cands[k-1])
	s.park(g)
}

func ptrKey(v Val) string {
	p, ok := v.(Ptr)
	if !ok || p.Obj == nil {
		panic(abort("unmodelled", "synchronisation object that is not addressable"))
	}
	return fmt.Sprintf("%d:%v", p.Obj.ID, p.Path)
}

// ---- channels under the scheduler

type waitingSend struct {
	v     Val
	taken *bool
}

func (in *Interp) chanSend(ch ChanV, v Val) {
	if ch.C == nil {
		in.waitUntil(func() bool { return false }, "send on nil channel")
	}
	in.schedPoint("send")
	c := ch.C
	if c.Closed {
		in.progPanic("send on closed channel")
	}
	if len(c.Queue) < c.Cap {
		c.Queue = append(c.Queue, v)
		return
	}
	taken := false
	c.Waiting = append(c.Waiting, waitingSend{v, &taken})
	in.waitUntil(func() bool { return taken || c.Closed }, "channel send")
	if !taken {
		in.progPanic("send on closed channel")
	}
}

func (in *Interp) chanRecv(ch ChanV) (Val, bool) {
	if ch.C == nil {
		in.waitUntil(func() bool { return false }, "receive from nil channel")
	}
	in.schedPoint("receive")
	c := ch.C
	in.waitUntil(func() bool { return len(c.Queue) > 0 || len(c.Waiting) > 0 || c.Closed }, "channel receive")
	if len(c.Queue) > 0 {
		v := c.Queue[0]
		c.Queue = c.Queue[1:]
		if len(c.Waiting) > 0 {
			w := c.Waiting[0]
			c.Waiting = c.Waiting[1:]
			c.Queue = append(c.Queue, w.v)
			*w.taken = true
		}
		return v, true
	}
	if len(c.Waiting) > 0 {
		w := c.Waiting[0]
		c.Waiting = c.Waiting[1:]
		*w.taken = true
		return w.v, true
	}
	return nil, false
}

// ---- sync package under the scheduler

func schedSyncStub(typeAndName string) StubFn {
	switch typeAndName {
	case "WaitGroup.Add":
		return func(in *Interp, fn *ssa.Function, a []Val) Val {
			n := a[1].(*Term)
			if !n.IsConst {
				panic(abort("unmodelled", "WaitGroup.Add of a symbolic delta"))
			}
			k := ptrKey(a[0])
			in.sched.wg[k] += sext(n.C, n.Sort.W)
			if in.sched.wg[k] < 0 {
				in.progPanic("sync: negative WaitGroup counter")
			}
			return nil
		}
	case "WaitGroup.Done":
		return func(in *Interp, fn *ssa.Function, a []Val) Val {
			in.schedPoint("WaitGroup.Done")
			k := ptrKey(a[0])
			in.sched.wg[k]--
			if in.sched.wg[k] < 0 {
				in.progPanic("sync: negative WaitGroup counter")
			}
			return nil
		}
	case "WaitGroup.Wait":
		return func(in *Interp, fn *ssa.Function, a []Val) Val {
			in.schedPoint("WaitGroup.Wait")
			k := ptrKey(a[0])
			in.waitUntil(func() bool { return in.sched.wg[k] == 0 }, "WaitGroup.Wait")
			return nil
		}
	case "Mutex.Lock", "RWMutex.Lock":
		return func(in *Interp, fn *ssa.Function, a []Val) Val {
			in.schedPoint("Lock")
			m := in.sched.mutex(ptrKey(a[0]))
			in.waitUntil(func() bool { return !m.held && m.readers == 0 }, "Mutex.Lock")
			m.held = true
			return nil
		}
	case "Mutex.Unlock", "RWMutex.Unlock":
		return func(in *Interp, fn *ssa.Function, a []Val) Val {
			m := in.sched.mutex(ptrKey(a[0]))
			if !m.held {
				in.progPanic("sync: unlock of unlocked mutex")
			}
			m.held = false
			return nil
		}
	case "RWMutex.RLock":
		return func(in *Interp, fn *ssa.Function, a []Val) Val {
			in.schedPoint("RLock")
			m := in.sched.mutex(ptrKey(a[0]))
			in.waitUntil(func() bool { return !m.held }, "RWMutex.RLock")
			m.readers++
			return nil
		}
	case "RWMutex.RUnlock":
		return func(in *Interp, fn *ssa.Function, a []Val) Val {
			m := in.sched.mutex(ptrKey(a[0]))
			if m.readers == 0 {
				in.progPanic("sync: RUnlock of unlocked RWMutex")
			}
			m.readers--
			return nil
		}
	}
	return nil
}

func (s *Sched) mutex(k string) *muState {
	m := s.mu[k]
	if m == nil {
		m = &muState{}
		s.mu[k] = m
	}
	return m
}
